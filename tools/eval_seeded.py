#!/usr/bin/env python3
"""Run the registered quick check of every seeded change against a patched copy of /repo/src (same effect as
`git -C /repo apply`, check, `git -C /repo checkout -- .`, without touching /repo) and record which obligations /
bounded clauses report it. usage: tools/eval_seeded.py [parallelism [seeded-id ...]]   (writes seeded/<id>/meta.json `reported_by`)"""
import glob, json, os, re, shutil, subprocess, sys, tempfile
from concurrent.futures import ThreadPoolExecutor
V = os.path.dirname(os.path.dirname(os.path.abspath(__file__)))


def one(d):
    sid = os.path.basename(d.rstrip("/"))
    meta = json.load(open(d + "/meta.json"))
    prop = meta["property"]
    tmp = tempfile.mkdtemp(prefix="seeded_")
    try:
        shutil.copytree("/repo/src", tmp + "/src")
        r = subprocess.run(["patch", "-p1", "-s", "-i", os.path.abspath(d + "/patch.diff")], cwd=tmp, capture_output=True, text=True)
        if r.returncode != 0:
            return sid, None, ["PATCH DOES NOT APPLY: " + (r.stdout + r.stderr)[:200]]
        c = subprocess.run([V + "/check", prop], capture_output=True, text=True, cwd=V, env=dict(os.environ, PYVC_REPO_SRC=tmp + "/src"))
        rep = []
        for l in c.stdout.splitlines():
            m = re.match(r"VIOLATION property=\S+ replay=\S*/out/\w+/(\S+?)(\.py)?( no-failing-input-found)?$", l)
            if m:
                rep.append(m.group(1).replace("replay_", "") + (" (no-failing-input-found)" if m.group(3) else ""))
        meta["confirmed_by"]["check_exit_on_patched_tree"] = c.returncode
        meta["confirmed_by"]["reported_by"] = rep
        json.dump(meta, open(d + "/meta.json", "w"), indent=1)
        return sid, c.returncode, rep
    finally:
        shutil.rmtree(tmp, ignore_errors=True)


if __name__ == "__main__":
    par = int(sys.argv[1]) if len(sys.argv) > 1 else 3
    dirs = sorted(glob.glob(V + "/seeded/*/"))
    if len(sys.argv) > 2:          # optional: only these seeded ids
        dirs = [d for d in dirs if os.path.basename(d.rstrip("/")) in sys.argv[2:]]
    with ThreadPoolExecutor(par) as ex:
        for sid, rc, rep in ex.map(one, dirs):
            print(sid, "exit", rc, "|", "; ".join(rep[:4])[:300], flush=True)
