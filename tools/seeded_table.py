#!/usr/bin/env python3
"""Rewrite the seeded-change table of DESIGN.md from seeded/*/meta.json."""
import glob, json, os, re
V = os.path.dirname(os.path.dirname(os.path.abspath(__file__)))
rows = []
for d in sorted(glob.glob(V + "/seeded/*/")):
    m = json.load(open(d + "meta.json"))
    sid = os.path.basename(d.rstrip("/"))
    rep = m["confirmed_by"]["reported_by"]
    short = lambda r: re.sub(r"#[p0-9.]+", "", r.replace("bounded_", "").replace(" (no-failing-input-found)", "").replace(".py", ""))
    ded = sorted({short(r) for r in rep if not r.startswith("bounded_")})
    bnd = sorted({short(r) for r in rep if r.startswith("bounded_")})
    what = m["breaks"].split(". ")[0][:150].replace("|", "/")
    rows.append(f"| `{sid}` | {what} | {'; '.join(ded) or '—'} | {'; '.join(bnd) or '—'} |")
p = V + "/DESIGN.md"
s = open(p).read()
a = s.index("| seeded change | what it breaks |")
b = s.index("\n\n", a)
head = s[a:s.index("\n", s.index("\n", a) + 1) + 1]
s = s[:a] + head + "\n".join(rows) + s[b:]
open(p, "w").write(s)
print(len(rows), "rows")
