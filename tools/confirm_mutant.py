#!/usr/bin/env python3
"""Confirm a seeded change independently in a scratch worktree, then run the registered check on /repo with the patch
applied (and undo it). usage: confirm_mutant.py <mutant-dir> [--no-tests]"""
import json, os, subprocess, sys, shutil, xml.etree.ElementTree as ET
d = sys.argv[1].rstrip("/")
meta = json.load(open(f"{d}/meta.json"))
prop = meta["property"]
WT = os.environ.get("MUT_WT", "/tmp/mut/verify")
def sh(cmd, **kw):
    return subprocess.run(cmd, shell=True, capture_output=True, text=True, **kw)
if not os.path.isdir(WT):
    print(sh(f"git -C /repo worktree add -q --detach {WT} HEAD").stderr)
sh(f"git -C {WT} checkout -q --detach $(git -C /repo rev-parse HEAD) && git -C {WT} checkout -- . && git -C {WT} clean -fdq")
env = dict(os.environ, SRC=f"{WT}/src", PYTHONPATH=f"{WT}/src")
r0 = subprocess.run(["/venv/bin/python", f"{d}/demo.py"], env=env, capture_output=True, text=True, cwd=WT)
ap = sh(f"git -C {WT} apply {d}/patch.diff")
if ap.returncode != 0:
    print("PATCH DOES NOT APPLY to current HEAD:", ap.stderr[:300]); sys.exit(2)
r1 = subprocess.run(["/venv/bin/python", f"{d}/demo.py"], env=env, capture_output=True, text=True, cwd=WT)
tests_ok = None
if "--no-tests" not in sys.argv:
    subprocess.run(f"cd {WT} && PYTHONPATH={WT}/src /venv/bin/python -m pytest -q -p no:cacheprovider --timeout=900 --continue-on-collection-errors --junitxml=" + WT + "_j.xml > /dev/null 2>&1", shell=True)
    b = json.load(open('/root/.vp/BASELINE.json'))
    res = {}
    for tc in ET.parse(WT + '_j.xml').iter('testcase'):
        res[tc.get('classname') + '::' + tc.get('name')] = not any(c.tag in ('failure', 'error', 'skipped') for c in tc)
    broken = [s for s in b['stable_pass'] if not res.get(s)]
    tests_ok = not broken
sh(f"git -C {WT} checkout -- .")
print(f"{os.path.basename(d)} prop={prop} demo_clean_exit={r0.returncode} demo_patched_exit={r1.returncode} baseline_tests_ok={tests_ok}")
confirmed = r0.returncode == 0 and r1.returncode != 0 and tests_ok in (True, None)
# run our check against a patched copy of the tree (same effect as applying the patch to /repo, without
# disturbing other work going on there)
sh(f"git -C {WT} apply {d}/patch.diff")
try:
    c = subprocess.run(["/verif/check", prop], capture_output=True, text=True, cwd="/verif", timeout=3000,
                       env=dict(os.environ, PYVC_REPO_SRC=f"{WT}/src"))
    lines = [l for l in c.stdout.splitlines() if l.startswith(("VIOLATION", "UNDECIDED", "CHECKER", prop + ":"))]
    print("   check exit", c.returncode, "|", " || ".join(l[:160] for l in lines[:3]))
finally:
    sh(f"git -C {WT} checkout -- .")
json.dump({"confirmed": confirmed, "check_exit": c.returncode, "check_lines": lines[:5], "demo_clean": r0.returncode, "demo_patched": r1.returncode, "tests_ok": tests_ok},
          open(f"{d}/verify.json", "w"), indent=1)
