#!/venv/bin/python
"""Run the executable contracts natively on their own case generators (spec validation / bounded stand-in).
usage: tools/native_check.py [substring-of-target]"""
import sys, os, json
sys.path.insert(0, "/verif"); sys.path.insert(0, os.environ.get("PYVC_REPO_SRC", "/repo/src"))
import importlib, specs
from pyvc import native
from pyvc.api import CONTRACTS
flt = sys.argv[1] if len(sys.argv) > 1 else ""
for m in specs.MODULES:
    importlib.import_module(m)
for target, cls in __import__("pyvc.api", fromlist=["ALL"]).ALL:
    if flt not in target or not hasattr(cls, "native_cases"):
        continue
    r = native.run_cases(target, cls.__module__, cls.__name__, os.environ.get("VERIF_TIER", "quick"))
    print(target.split(":")[1], "cases", r["cases"], "in-contract", r["in_contract"], "violations", len(r["violations"]))
    for v in r["violations"][:8]:
        print("   ", v)
