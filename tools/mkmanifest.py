#!/usr/bin/env python3
"""Regenerates /verif/MANIFEST.json from tools/claims.json (what is claimed) + properties.jsonl."""
import json, os
V = os.path.dirname(os.path.dirname(os.path.abspath(__file__)))
props = [json.loads(l)["id"] for l in open(os.path.join(V, "properties.jsonl"))]
claims = json.load(open(os.path.join(V, "tools", "claims.json")))
def _level(p):
    f = os.path.join(V, "evidence", p + ".json")
    if os.path.exists(f):
        return json.load(open(f)).get("level", "proof")
    return "proof"


checks, na = [], []
for p in props:
    c = claims.get(p)
    if c and c.get("claimed"):
        checks.append({
            "property_id": p,
            "quick_cmd": f"./check {p} --tier quick",
            "thorough_cmd": f"./check {p} --tier thorough",
            "evidence_file": f"/verif/evidence/{p}.json",
            "replay_cmd_template": f"./check {p} --replay {{path}}",
            "engine": "pyvc",
            "level_claimed": {"category": _level(p), "text": c["text"], "design_ref": c.get("design_ref", "DESIGN.md §0, §5")},
            "level_note": c["note"],
            "technique": c.get("technique", "contract-based deductive verification: sidecar contracts on the real functions, VCs generated from /repo's AST by pyvc, discharged by z3/cvc5"),
        })
    else:
        na.append({"property_id": p, "reason": (c or {}).get("reason", "no contract check built yet for this property in this commit")})
m = {
    "version": 1,
    "setup_cmd": "/venv/bin/python -m pip install -q --no-index --find-links /opt/veriftools/wheels --target /verif/.deps z3-solver",
    "hooks": {"guard": "SAFE_DS_STUBGEN_VERIF",
              "enable": "no hooks: contracts are sidecar files under /verif/specs; the real source of /repo is re-read and symbolically executed on every run (guard reserved, unused)",
              "baseline_off_cmd": "cd /repo && /venv/bin/python -m pytest -ra -q -p no:cacheprovider --timeout=900 --continue-on-collection-errors",
              "source_commits": [], "add_only": True},
    "engines": [{"name": "pyvc", "path": "/verif/pyvc", "serves_properties": [c["property_id"] for c in checks],
                 "kind_free_text": "verification-condition generator over the Python AST of /repo: per-path symbolic execution into one SMT value sort, modular calls by sidecar contract, loops summarised by fold symbols with instantiated induction axioms, obligations discharged by z3 5.1 in-process with /usr/bin/z3 4.8.12 and cvc5 1.0.3 as fall-back; counter-models replayed on the real code by pyvc.native"}],
    "checks": checks,
    "not_applicable": na,
    "notes": "fix: commits in /repo (genuine defects found by the checks, see known_findings.json): af09e4a 0f6c3eb ee95db8 759a521 e4958e5 9138b6e 4daca9d 871d6e5 cef4d7c 79ed0ee 2f1bf07 19df577. Exit codes: 0 held, 1 VIOLATION, 2 UNDECIDED (never a violation), 3 checker error.",
}
json.dump(m, open(os.path.join(V, "MANIFEST.json"), "w"), indent=1)
print("checks:", [c["property_id"] for c in checks], "n/a:", len(na))
