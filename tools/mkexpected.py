#!/usr/bin/env python3
"""specs/expected.json: the clauses (target/clause) discharged on the unchanged tree, per tier and property, taken from
the evidence files of a green run (the tier a file was written by is recorded in it). Committed; never written by a
check. Only the tiers present among the current evidence files are replaced."""
import glob, json, os
V = os.path.dirname(os.path.dirname(os.path.abspath(__file__)))
path = os.path.join(V, "specs", "expected.json")
try:
    out = json.load(open(path))
    if "quick" not in out and "thorough" not in out:
        out = {"quick": out}
except (OSError, ValueError):
    out = {}
for f in sorted(glob.glob(os.path.join(V, "evidence", "C*.json"))):
    e = json.load(open(f))
    if e.get("violations") or e["coverage"]["obligations"] != e["coverage"]["discharged"]:
        print("skipped (not green):", f)
        continue
    out.setdefault(e["tier"], {})[e["property_id"]] = sorted(k for k, v in e["coverage"].get("clauses", {}).items() if v == "discharged")
json.dump(out, open(path, "w"), indent=1, sort_keys=True)
print({t: {k: len(v) for k, v in d.items()} for t, d in out.items()})
