#!/usr/bin/env python3
"""specs/expected.json: the clauses (target/clause) discharged on the unchanged tree, per property, taken from the
evidence files of a green run. Committed; never written by a check."""
import glob, json, os
V = os.path.dirname(os.path.dirname(os.path.abspath(__file__)))
out = {}
for f in sorted(glob.glob(os.path.join(V, "evidence", "C*.json"))):
    e = json.load(open(f))
    out[e["property_id"]] = sorted(k for k, v in e["coverage"].get("clauses", {}).items() if v == "discharged")
json.dump(out, open(os.path.join(V, "specs", "expected.json"), "w"), indent=1)
print({k: len(v) for k, v in out.items()})
