#!/bin/bash
# usage: tools/run_all.sh [quick|thorough] [parallelism]  — every registered check, summary line per check
cd "$(dirname "$0")/.."
T=${1:-quick}; P=${2:-4}
mkdir -p out/logs
run() { p=$1; S=$(date +%s); ./check $p --tier $T > out/logs/$p.$T.txt 2>&1; E=$?; echo "$p exit=$E secs=$(( $(date +%s) - S )) $(grep -E "^$p:" out/logs/$p.$T.txt | cut -c1-160)"; grep -E "^(VIOLATION|UNDECIDED|CHECKER)" out/logs/$p.$T.txt | cut -c1-300; }
export -f run; export T
printf "%s\n" C01 C02 C03 C04 C05 C06 C07 C08 C09 C10 C11 C12 C13 C14 C15 C16 C17 C18 C19 C20 | xargs -P $P -I{} bash -c 'run {}'
