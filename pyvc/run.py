"""check driver: /verif/check <Cxx> [--tier quick|thorough] [--replay file]

exit 0  every obligation of the property discharged (known findings printed as KNOWN-FINDING lines)
exit 1  VIOLATION property=<id> replay=<path>   (counter-model replayed natively where possible)
exit 2  UNDECIDED (construct outside the subset, contract target missing, solver budget) — never a violation
exit 3  checker error
"""
from __future__ import annotations

import argparse
import hashlib
import json
import multiprocessing as mp
import os
import sys
import time
import traceback

VERIF = os.path.dirname(os.path.dirname(os.path.abspath(__file__)))
OUT = os.path.join(VERIF, "out")


def _load_registry():
    from .contracts import Registry
    from .source import SourceIndex
    import specs
    src = SourceIndex()
    reg = Registry(src)
    for m in specs.MODULES:
        reg.load(m)
    if os.environ.get("VERIF_TIER", "quick") != "thorough":
        # contracts whose proof is scheduled for the thorough tier: the quick tier still executes the body (call-site
        # preconditions, declared shapes, frame) with the ordinary loop summaries, but does not attempt the clauses
        for c in reg.order:
            if c.prove_in == "thorough" and c.deductive:
                c.loop_invariants = {}
                for cl in c.ensures:
                    if cl.mode in ("both", "prove"):
                        cl.mode = "bounded"
                c.quick_restricted = True
    return src, reg


def contract_props(c):
    ps = set(c.props)
    for cl in c.ensures:
        ps.update(cl.props or [])
    if isinstance(c.raises, dict):
        for cl in c.raises.values():
            ps.update(cl.props or [])
    return ps


def _verify_worker(args):
    """Runs in a forked worker: generate and discharge the obligations of one contract for one property."""
    idx, prop, timeout_ms, inner_jobs = args
    t0 = time.time()
    rec = {"target": None, "records": [], "error": None, "unsupported": None, "paths": 0, "gen_s": 0.0, "sha": {}}
    try:
        from .contracts import verify_contract
        from .engine import Ctx
        from .prove import discharge
        from .values import Unsupported
        src, reg = _load_registry()
        c = reg.order[idx]
        rec["target"] = c.target
        rec["contract"] = c.name
        rec["spec_mod"] = c.spec_mod
        ctx = Ctx(src, reg)
        ctx.load_world()
        check_outcome = None
        nout = 0
        try:
            nout, check_outcome = verify_contract(ctx, c, prop)
            rec["paths"] = nout
        except Unsupported as e:
            rec["unsupported"] = str(e)
            ctx.current = None
        except KeyError as e:
            rec["unsupported"] = f"contract target not found: {e}"
            ctx.current = None
        rec["gen_s"] = time.time() - t0
        for mname, mi in src.modules.items():
            if not mi.is_spec:
                rec["sha"][mi.path] = mi.sha256

        def relevant(ob):
            return prop in (ob.props if ob.props is not None else c.props)

        def one(ob):
            discharge(ctx, ob, timeout_ms)
            if ob.status == "unknown":
                # escalate once before anything is reported (budget noise must never look like a verdict)
                ob.status = "open"
                spent = ob.seconds
                discharge(ctx, ob, timeout_ms * 4)
                ob.seconds += spent
            return {
                "name": ob.name, "kind": ob.kind, "clause": ob.clause, "status": ob.status, "backend": ob.backend,
                "seconds": round(ob.seconds, 3), "notes": ob.notes, "where": ob.where, "known": list(ob.known or []),
                "model": ob.model_text[:3000], "goal": str(ob.goal)[:600], "nhyps": len(ob.hyps),
                "model_vals": _model_vals(ob),
            }
        from .par import pmap
        body_obs = [ob for ob in ctx.obligations if relevant(ob)]
        rec["records"] = pmap(one, body_obs, inner_jobs)

        def outcome_job(i):
            import signal
            n0 = len(ctx.obligations)

            class _Budget(Exception):
                pass

            def _alarm(*a):
                raise _Budget()
            signal.signal(signal.SIGALRM, _alarm)
            signal.alarm(int(os.environ.get("PYVC_OUTCOME_BUDGET_S", "600")))
            try:
                check_outcome(i)
            except Unsupported as e:
                signal.alarm(0)
                return {"unsupported": f"outcome {i}: {e}", "records": []}
            except _Budget:
                return {"unsupported": f"outcome {i}: generation budget exceeded", "records": []}
            finally:
                signal.alarm(0)
            return {"unsupported": None, "records": [one(ob) for ob in ctx.obligations[n0:] if relevant(ob)]}
        if check_outcome is not None:
            budget = int(os.environ.get("PYVC_OUTCOME_BUDGET_S", "420"))
            for r in pmap(outcome_job, range(nout), inner_jobs, timeout_s=budget,
                          on_timeout=lambda i: {"unsupported": f"outcome path {i}: not decided within {budget} s", "records": []}):
                if r["unsupported"] and not rec["unsupported"]:
                    rec["unsupported"] = r["unsupported"]
                rec["records"] += r["records"]
        rec["assumptions"] = sorted({n for r in rec["records"] for n in r["notes"]})
    except Exception:
        rec["error"] = traceback.format_exc()
    rec["wall_s"] = time.time() - t0
    return rec


def _model_vals(ob):
    """Concrete values of the symbolic inputs (name!k constants) in a counter-model."""
    out = {}
    m = ob.model
    if m is None:
        return out
    import z3
    for d in m.decls():
        if d.arity() == 0 and "!" in d.name():
            base = d.name().split("!")[0]
            v = m[d]
            try:
                if z3.is_string_value(v):
                    out[base] = {"str": _z3str(v)}
                elif z3.is_int_value(v):
                    out[base] = {"int": v.as_long()}
                elif z3.is_true(v) or z3.is_false(v):
                    out[base] = {"bool": z3.is_true(v)}
                else:
                    out[base] = {"term": str(v)[:200]}
            except Exception:
                pass
    return out


def _z3str(v):
    s = v.as_string()
    # z3 escapes non-printable / non-ascii as \u{hex}
    import re
    return re.sub(r"\\u\{([0-9a-fA-F]+)\}", lambda m: chr(int(m.group(1), 16)), s)


def _install_debug():
    import faulthandler, signal
    try:
        faulthandler.register(signal.SIGUSR1, all_threads=True)
    except Exception:
        pass


def main(argv=None):
    _install_debug()
    ap = argparse.ArgumentParser()
    ap.add_argument("prop")
    ap.add_argument("--tier", default=os.environ.get("VERIF_TIER", "quick"))
    ap.add_argument("--replay")
    ap.add_argument("--jobs", type=int, default=int(os.environ.get("PYVC_JOBS", "16")))
    ap.add_argument("--only", default=None)
    a = ap.parse_args(argv)
    seed = int(os.environ.get("VERIF_SEED", "0") or 0)
    if a.replay:
        os.execv(sys.executable, [sys.executable, a.replay])
    t0 = time.time()
    prop = a.prop
    os.environ["VERIF_TIER"] = a.tier
    timeout_ms = 10000 if a.tier == "quick" else 60000
    try:
        src, reg = _load_registry()
    except Exception:
        traceback.print_exc()
        print(f"CHECKER-ERROR property={prop} loading contracts failed")
        return 3
    sel = [i for i, c in enumerate(reg.order) if prop in contract_props(c) and c.verify
           and (a.only is None or a.only in c.target)]
    def _proved_here(c):
        return c.deductive
    idxs = [i for i in sel if _proved_here(reg.order[i])]
    bounded_only = [i for i in sel if not reg.order[i].deductive]
    # assumed in this run: trusted contracts, and contracts whose proof is scheduled for the thorough tier only
    assumed = [c for c in reg.order if prop in contract_props(c) and not c.verify]
    if not sel:
        print(f"CHECKER-ERROR property={prop} no contracts registered (zero obligations)")
        return 3
    jobs = max(1, min(a.jobs, max(1, len(idxs))))
    inner = max(1, a.jobs // jobs)
    from .par import pmap
    recs = pmap(_verify_worker, [(i, prop, timeout_ms, inner) for i in idxs], jobs) if idxs else []
    # bounded stand-ins: the executable contracts run natively on their own small-scope case generators
    from .report import finish, native_in_subprocess
    bounded = []

    def _bounded_job(i):
        c = reg.order[i]
        res, err = native_in_subprocess("run_cases", c.target, c.spec_mod, c.name, a.tier, seed, timeout=1500)
        return (i, res, err)
    for i, res, err in pmap(_bounded_job, sel, min(8, max(1, len(sel)))):
        c = reg.order[i]
        if res is None:
            bounded.append({"target": c.target, "contract": c.name, "spec_mod": c.spec_mod, "error": err[-400:]})
        elif res.get("cases"):
            res.update({"target": c.target, "contract": c.name, "spec_mod": c.spec_mod})
            bounded.append(res)
    for i in []:
        c = reg.order[i]
        res, err = native_in_subprocess("run_cases", c.target, c.spec_mod, c.name, a.tier, seed, timeout=900)
        if res is None:
            bounded.append({"target": c.target, "contract": c.name, "spec_mod": c.spec_mod, "error": err[-400:]})
        elif res.get("cases"):
            res.update({"target": c.target, "contract": c.name, "spec_mod": c.spec_mod})
            bounded.append(res)
    return finish(prop, a.tier, seed, recs, assumed, reg, time.time() - t0, timeout_ms, bounded)


if __name__ == "__main__":
    sys.exit(main())
