"""Discharging obligations: fold-axiom instantiation, in-process z3, CLI portfolio (z3 4.8.12, cvc5)."""
from __future__ import annotations

import os
import subprocess
import tempfile
import time

import z3

from . import smt
from .smt import V, simp


def _apps_of(terms, names):
    """All applications of the named functions occurring in terms: {name: [app terms]}"""
    out = {}
    seen = set()
    stack = list(terms)
    while stack:
        t = stack.pop()
        i = t.get_id()
        if i in seen:
            continue
        seen.add(i)
        if z3.is_app(t):
            n = t.decl().name()
            if n in names and t.num_args() > 0:
                out.setdefault(n, []).append(t)
            stack.extend(t.children())
        elif z3.is_quantifier(t):
            stack.append(t.body())
    return out


def _indexed_fold_apps(terms, names):
    """Fold applications that occur as the sequence argument of an element access."""
    out = []
    seen = set()
    stack = list(terms)
    while stack:
        t = stack.pop()
        i = t.get_id()
        if i in seen:
            continue
        seen.add(i)
        if z3.is_app(t):
            if t.decl().name() in ("AT", "seq.nth", "seq.nth_i", "seq.nth_u") and t.num_args() == 2:
                a = t.arg(0)
                if z3.is_app(a) and a.decl().name() in names and a.num_args() == 2 and \
                        a.get_id() not in {x.get_id() for x in out}:
                    out.append(a)
            stack.extend(t.children())
        elif z3.is_quantifier(t):
            stack.append(t.body())
    return out


def fold_instances(ctx, terms, rounds=2):
    """Ground instances of the defining equations of the fold symbols occurring in `terms`."""
    facts = []
    done = set()
    cur = list(terms)
    indexed = _indexed_fold_apps(terms, set(ctx.folds))
    for rnd in range(rounds):
        apps = _apps_of(cur, set(ctx.folds))
        new = []
        if rnd == 0:
            # a comprehension that is indexed directly (xs[-1], xs[0]): peel its last and first iteration
            for a in indexed:
                fi = ctx.folds[a.decl().name()]
                lo, hi = a.arg(0), a.arg(1)
                if fi.kind in ("seq", "str"):
                    for m in (simp(hi - 1), simp(lo + 1)):
                        new += [z3.Implies(lo < hi, c) for c in _split_fact(ctx, fi, lo, m, hi)]
                    new += [z3.Implies(lo < hi - 1, c) for c in _split_fact(ctx, fi, lo, simp(hi - 2), simp(hi - 1))]
        for name, alist in apps.items():
            fi = ctx.folds[name]
            uniq = []
            for a in alist:
                if a.get_id() not in {u.get_id() for u in uniq}:
                    uniq.append(a)
            for a in uniq:
                key = ("u", a.get_id())
                if key in done:
                    continue
                done.add(key)
                lo, hi = a.arg(0), a.arg(1)
                new += _unit_facts(ctx, fi, a, lo, hi)
            # range splits between applications of the same fold
            pts = []
            for a in uniq:
                for x in (a.arg(0), a.arg(1)):
                    if x.get_id() not in {p.get_id() for p in pts}:
                        pts.append(x)
            for a in uniq:
                lo, hi = a.arg(0), a.arg(1)
                for m in pts:
                    if z3.eq(m, lo) or z3.eq(m, hi):
                        continue
                    key = ("s", a.get_id(), m.get_id())
                    if key in done:
                        continue
                    done.add(key)
                    new += _split_fact(ctx, fi, lo, m, hi)
        if rnd == 0:
            # FIRST_h / LAST_h are built from the same condition h: an index satisfying it exists for both or neither
            for name, alist in apps.items():
                if not name.startswith("FIRST_"):
                    continue
                twin = "LAST_" + name[len("FIRST_"):]
                if twin in ctx.folds and ctx.folds[twin].kind == "last" and ctx.folds[name].kind == "first" and \
                        z3.eq(z3.substitute(ctx.folds[twin].piece, (ctx.folds[twin].K0, ctx.folds[name].K0)), ctx.folds[name].piece):
                    for a in alist:
                        lo, hi = a.arg(0), a.arg(1)
                        new.append(z3.Implies(lo <= hi, (ctx.folds[twin].fn(lo, hi) >= lo) == (a < hi)))
        if not new:
            break
        facts += new
        cur = new
    return facts


def _piece_at(fi, k):
    return z3.substitute(fi.piece, (fi.K0, k))


def _body_facts_at(fi, k):
    return [z3.substitute(f, (fi.K0, k)) for f in fi.facts]


def _unit_facts(ctx, fi, app, lo, hi):
    f = fi.fn
    out = []
    if fi.kind == "seq":
        # identity map: piece(k) == [B[k]]  =>  fold == B[lo:hi]
        pc = simp(fi.piece)
        if z3.is_app(pc) and pc.decl().kind() == z3.Z3_OP_SEQ_UNIT:
            el = pc.arg(0)
            if z3.is_app(el) and el.decl().name() == "AT" and z3.eq(el.arg(1), fi.K0):
                B = el.arg(0)
                out.append(z3.Implies(z3.And(0 <= lo, lo <= hi, hi <= z3.Length(B)), app == z3.Extract(B, lo, hi - lo)))
        out.append(z3.Implies(hi <= lo, app == smt.EMPTY_SEQ))
        out.append(z3.Implies(hi == lo + 1, app == _piece_at(fi, lo)))
        if fi.unit_len is not None:
            out.append(z3.Implies(hi >= lo, z3.Length(app) == fi.unit_len * (hi - lo)))
    elif fi.kind == "str":
        out.append(z3.Implies(hi <= lo, app == z3.StringVal("")))
        out.append(z3.Implies(hi == lo + 1, app == _piece_at(fi, lo)))
    elif fi.kind == "set":
        out.append(z3.Implies(hi <= lo, app == smt.EMPTY_SET))
        out.append(z3.Implies(hi == lo + 1, app == _piece_at(fi, lo)))
    elif fi.kind == "int":
        out.append(z3.Implies(hi <= lo, app == 0))
        out.append(z3.Implies(hi == lo + 1, app == _piece_at(fi, lo)))
    elif fi.kind == "last":
        # greatest index in [lo,hi) satisfying cond, or lo-1
        out.append(z3.And(app >= lo - 1, z3.Or(app < hi, app == lo - 1)))
        out.append(z3.Implies(app >= lo, z3.substitute(fi.piece, (fi.K0, app))))
        out.append(z3.Implies(hi <= lo, app == lo - 1))
        out.append(z3.Implies(hi == lo + 1, app == z3.If(_piece_at(fi, lo), lo, lo - 1)))
        out += [z3.Implies(app >= lo, bf) for bf in _body_facts_at(fi, app)]
    elif fi.kind == "first":
        # peel the first index: F(lo,hi) = lo if cond(lo) else F(lo+1,hi)   (for lo < hi)
        out.append(z3.Implies(lo < hi, app == z3.If(_piece_at(fi, lo), lo, fi.fn(lo + 1, hi))))
        out.append(z3.Or(z3.And(app >= lo, app <= hi), z3.And(hi < lo, app == hi)))
        out.append(z3.Implies(z3.And(app >= lo, app < hi), z3.substitute(fi.piece, (fi.K0, app))))
        out.append(z3.Implies(hi <= lo, app == hi))
        out.append(z3.Implies(hi == lo + 1, app == z3.If(_piece_at(fi, lo), lo, hi)))
    if fi.kind in ("seq", "str", "set", "int"):
        out += [z3.Implies(hi == lo + 1, bf) for bf in _body_facts_at(fi, lo)]
    return out


def _split_fact(ctx, fi, lo, m, hi):
    f = fi.fn
    g = z3.And(lo <= m, m <= hi)
    if fi.kind in ("seq", "str"):
        return [z3.Implies(g, f(lo, hi) == z3.Concat(f(lo, m), f(m, hi)))]
    if fi.kind == "set":
        return [z3.Implies(g, f(lo, hi) == z3.SetUnion(f(lo, m), f(m, hi)))]
    if fi.kind == "int":
        return [z3.Implies(g, f(lo, hi) == f(lo, m) + f(m, hi))]
    if fi.kind == "first":
        return [z3.Implies(g, f(lo, hi) == z3.If(f(lo, m) < m, f(lo, m), f(m, hi)))]
    if fi.kind == "last":
        return [z3.Implies(g, f(lo, hi) == z3.If(f(m, hi) >= m, f(m, hi), z3.If(f(lo, m) >= lo, f(lo, m), lo - 1)))]
    return []


# ------------------------------------------------------------------------------------------------ solving
def make_solver(hyps, goal, timeout_ms):
    s = z3.Solver()
    s.set("timeout", timeout_ms)
    for h in hyps:
        s.add(h)
    s.add(z3.Not(goal))
    return s


def smt2_text(hyps, goal, logic="ALL"):
    s = z3.Solver()
    for h in hyps:
        s.add(h)
    s.add(z3.Not(goal))
    return s.to_smt2()


def run_cli(cmd, text, timeout_s):
    with tempfile.NamedTemporaryFile("w", suffix=".smt2", delete=False, dir=os.environ.get("PYVC_TMP", None)) as f:
        f.write(text)
        name = f.name
    try:
        t = time.time()
        r = subprocess.run(cmd + [name], capture_output=True, text=True, timeout=timeout_s + 2)
        out = (r.stdout or "").strip().splitlines()
        verdict = out[0].strip() if out else "unknown"
        if verdict not in ("sat", "unsat", "unknown"):
            verdict = "unknown"
        return verdict, time.time() - t
    except subprocess.TimeoutExpired:
        return "unknown", timeout_s
    finally:
        try:
            os.unlink(name)
        except OSError:
            pass


def discharge(ctx, ob, timeout_ms=10000, portfolio=True):
    """Decide one obligation. Sets ob.status in {discharged, failed, unknown}."""
    if ob.status != "open":
        return ob
    t0 = time.time()
    hyps = list(ob.hyps)
    if ob.expect_sat:
        # cover obligation: the hypotheses must be satisfiable
        s = z3.Solver()
        s.set("timeout", timeout_ms)
        for h in hyps:
            s.add(h)
        r = s.check()
        ob.seconds = time.time() - t0
        ob.backend = "z3-" + z3.get_version_string()
        ob.status = "discharged" if r == z3.sat else ("failed" if r == z3.unsat else "unknown")
        if r == z3.unsat:
            ob.model_text = "precondition unsatisfiable (vacuous contract)"
        return ob
    inst = fold_instances(ctx, hyps + [ob.goal])
    inst += aux_instances(ctx, hyps + [ob.goal] + inst)
    inst += at_instances(hyps + [ob.goal] + inst)
    full_ms = timeout_ms
    # in-process z3 first (cheap obligations never reach the CLI race); on an escalated retry it gets half the budget
    first_ms = (min(timeout_ms, 3000) if timeout_ms <= 10000 else timeout_ms // 2) if portfolio else timeout_ms
    s = make_solver(hyps + inst, ob.goal, first_ms)
    r = s.check()
    if r != z3.unsat:
        # induction lemma: folds over the same range whose pieces agree point-wise are equal
        lem = pointwise_lemmas(ctx, hyps + inst, hyps + inst + [ob.goal], timeout_ms)
        lem += char_absence_lemmas(ctx, hyps, hyps + inst + [ob.goal], timeout_ms)
        if lem:
            inst += lem
            more = fold_instances(ctx, lem)
            inst += more + at_instances(lem + more)
            s = make_solver(hyps + inst, ob.goal, first_ms)
            r = s.check()
            ob.notes = list(ob.notes) + ["fold induction lemma: point-wise equal pieces give equal folds"]
    if r != z3.unsat and literal_case_split(hyps + inst, ob.goal, first_ms):
        r = z3.unsat
        ob.notes = list(ob.notes) + ["case split over a finite disjunction of literal values"]
    if r == z3.sat:
        # a model that does not falsify the goal is not a counterexample (seen with ite-valued sequence terms)
        try:
            m = s.model()
            # accepted only if the model evaluates the goal to false and every hypothesis to true (literally)
            bad = not z3.is_false(m.eval(ob.goal, model_completion=True)) or \
                any(not z3.is_true(m.eval(h, model_completion=True)) for h in hyps + inst)
            if bad:
                r = z3.unknown
                ob.notes = list(ob.notes) + ["solver model rejected: it does not evaluate the hypotheses to true and the goal to false"]
        except z3.Z3Exception:
            pass
    if r != z3.unsat and goal_ite_split(hyps + inst, ob.goal, first_ms):
        r = z3.unsat
        ob.notes = list(ob.notes) + ["Shannon expansion of an if-then-else in the goal"]
    ob.seconds = time.time() - t0
    ob.backend = "z3-" + z3.get_version_string()
    if r == z3.unsat:
        ob.status = "discharged"
        return ob
    if r == z3.sat:
        ob.status = "failed"
        try:
            ob.model = s.model()
            ob.model_text = str(ob.model)[:4000]
        except z3.Z3Exception:
            pass
        return ob
    # unknown: portfolio (z3 4.8.12 and cvc5 race on the same SMT-LIB text)
    ob.status = "unknown"
    ob.model_text = "z3: " + s.reason_unknown()
    if portfolio:
        try:
            text = s.to_smt2()
        except z3.Z3Exception:
            return ob
        verdict, label, secs = race_cli(text, full_ms)
        ob.seconds += secs
        if verdict == "unsat":
            ob.status = "discharged"
            ob.backend = label
        elif verdict == "sat":
            # a `sat` of a CLI back end comes without a model we could validate (z3 4.8.12 answers `sat` on some
            # valid goals over ite-valued sequences): undecided, never a refutation
            ob.model_text = f"sat ({label}) without a validated model: treated as unknown"
    return ob


def race_cli(text, timeout_ms):
    """Run the CLI back ends concurrently; first definite answer wins."""
    secs = max(1, timeout_ms // 1000)
    cands = []
    if os.path.exists("/usr/bin/cvc5"):
        t = to_cvc5(text)
        if t is not None:
            cands.append(("cvc5-1.0.3", ["/usr/bin/cvc5", "--strings-exp", "--dt-nested-rec", f"--tlimit={timeout_ms}"], t))
    if os.path.exists("/usr/bin/z3"):
        cands.append(("z3-4.8.12", ["/usr/bin/z3", f"-T:{secs}"], text))
    procs = []
    t0 = time.time()
    for label, cmd, txt in cands:
        f = tempfile.NamedTemporaryFile("w", suffix=".smt2", delete=False)
        f.write(txt)
        f.close()
        procs.append((label, subprocess.Popen(cmd + [f.name], stdout=subprocess.PIPE, stderr=subprocess.DEVNULL, text=True), f.name))
    verdict, who = "unknown", ""
    deadline = t0 + secs + 3
    live = list(procs)
    while live and time.time() < deadline and verdict == "unknown":
        for item in list(live):
            label, p, fn = item
            if p.poll() is not None:
                out = (p.stdout.read() or "").strip().splitlines()
                v = out[0].strip() if out else "unknown"
                live.remove(item)
                if v == "unsat" or (v == "sat" and label.startswith("z3")):
                    verdict, who = v, label
                    break
        time.sleep(0.02)
    for label, p, fn in procs:
        if p.poll() is None:
            p.kill()
        try:
            os.unlink(fn)
        except OSError:
            pass
    return verdict, who, time.time() - t0


def _first_ite_atom(t, limit=4000):
    """An atomic condition of some ite inside t (breadth-first: outermost first)."""
    from collections import deque
    dq = deque([t])
    seen = set()
    n = 0
    while dq and n < limit:
        x = dq.popleft()
        n += 1
        if x.get_id() in seen:
            continue
        seen.add(x.get_id())
        if z3.is_app(x) and x.decl().kind() == z3.Z3_OP_ITE:
            c = x.arg(0)
            # descend to an atom of the condition
            while z3.is_and(c) or z3.is_or(c) or z3.is_not(c):
                c = c.arg(0)
            if not (z3.is_true(c) or z3.is_false(c)):
                return c
        dq.extend(x.children())
    return None


def _assign_atom(atom, val):
    subs = [(atom, z3.BoolVal(val))]
    if val and z3.is_eq(atom):
        a, b = atom.arg(0), atom.arg(1)
        from .engine import _is_literal_term
        for x, y in ((a, b), (b, a)):
            if _is_literal_term(y) and not _is_literal_term(x):
                subs.append((x, y))
                break
    if val and z3.is_app(atom) and atom.decl().kind() == z3.Z3_OP_DT_IS and atom.arg(0).sort() == V:
        t = atom.arg(0)
        for cn in smt.CTORS:
            other = getattr(V, "is_" + cn)(t)
            if not z3.eq(other, atom):
                subs.append((other, z3.BoolVal(False)))
    return subs


def equal_by_cases(hyps, ta, tb, budget):
    """Prove hyps => ta == tb by Shannon expansion over the conditions of the ite-terms in ta / tb: each leaf is
    a syntactic identity or a small solver query. Returns True / False (could not prove). budget: dict with
    'leaves' and 'deadline'."""
    stack = [(ta, tb, [])]
    while stack:
        a, b, assum = stack.pop()
        if time.time() > budget["deadline"] or budget["leaves"] <= 0:
            return False
        a, b = simp(a), simp(b)
        if z3.eq(a, b):
            continue
        atom = _first_ite_atom(a)
        if atom is None:
            atom = _first_ite_atom(b)
        if atom is None:
            budget["leaves"] -= 1
            s = z3.Solver()
            s.set("timeout", 3000)
            for h in hyps:
                s.add(h)
            for x in assum:
                s.add(x)
            s.add(a != b)
            r = s.check()
            if r != z3.unsat:
                if os.environ.get("PYVC_CASEDBG"):
                    print("LEAF", r, "\n  A:", str(a)[:1500], "\n  B:", str(b)[:1500], "\n  assum:", [str(x)[:150] for x in assum][:30])
                    if r == z3.sat:
                        print("  model:", str(s.model())[:1200])
                budget["fail"] = (a, b, assum)
                return False
            continue
        for val in (True, False):
            subs = _assign_atom(atom, val)
            stack.append((z3.substitute(a, *subs), z3.substitute(b, *subs), assum + [atom if val else z3.Not(atom)]))
    return True


def goal_ite_split(hyps, goal, timeout_ms, depth=0):
    """Shannon expansion of an if-then-else at the top of one side of an equality goal (or of the goal itself):
    prove `c -> goal[then]` and `not c -> goal[else]` separately. z3's sequence solver answers `sat` (with a model
    that does not falsify the goal) or `unknown` on some goals of the form ite(c, xs, xs ++ [y]) == fold(...),
    while both cases are immediate."""
    if depth > 3:
        return False
    g = goal
    target = None
    if z3.is_app(g) and g.decl().kind() == z3.Z3_OP_ITE:
        c, a, b = g.children()
        cases = [(c, a), (z3.Not(c), b)]
    elif z3.is_eq(g):
        cases = None
        for i in (0, 1):
            t = g.arg(i)
            # look through one constructor application (VList(ite(...)))
            inner = t
            wrap = None
            if z3.is_app(t) and t.num_args() == 1 and t.decl().kind() == z3.Z3_OP_DT_CONSTRUCTOR:
                inner, wrap = t.arg(0), t.decl()
            if z3.is_app(inner) and inner.decl().kind() == z3.Z3_OP_ITE:
                c, a, b = inner.children()
                mk = (lambda x, wrap=wrap: wrap(x)) if wrap is not None else (lambda x: x)
                other = g.arg(1 - i)
                cases = [(c, mk(a) == other), (z3.Not(c), mk(b) == other)]
                break
        if cases is None:
            return False
    else:
        return False
    for cond, sub in cases:
        s = z3.Solver()
        s.set("timeout", timeout_ms)
        for h in hyps:
            s.add(h)
        s.add(cond)
        s.add(z3.Not(sub))
        if s.check() != z3.unsat:
            if not goal_ite_split(list(hyps) + [cond], simp(sub), timeout_ms, depth + 1):
                return False
    return True


def literal_case_split(hyps, goal, timeout_ms):
    """If some hypothesis is `x == l1 or ... or x == ln` (literals), prove the goal for each value of x separately
    after substituting it (the simplifier then folds string slices, table lookups etc.)."""
    from .engine import _is_literal_term
    for h in hyps:
        if not z3.is_or(h) or h.num_args() > 8:
            continue
        alts = []
        var = None
        ok = True
        for d in h.children():
            if not z3.is_eq(d):
                ok = False
                break
            a, b = d.arg(0), d.arg(1)
            if _is_literal_term(b) and not _is_literal_term(a):
                x, lit = a, b
            elif _is_literal_term(a) and not _is_literal_term(b):
                x, lit = b, a
            else:
                ok = False
                break
            if var is None:
                var = x
            elif not z3.eq(var, x):
                ok = False
                break
            alts.append(lit)
        if not ok or var is None or len(alts) < 2:
            continue
        all_ok = True
        for lit in alts:
            s = z3.Solver()
            s.set("timeout", timeout_ms)
            for hh in hyps:
                s.add(simp(z3.substitute(hh, (var, lit))))
            s.add(simp(z3.Not(z3.substitute(goal, (var, lit)))))
            if s.check() != z3.unsat:
                all_ok = False
                break
        if all_ok:
            return True
    return False


def _const_masks(terms):
    """Constant arrays (store chains over a constant array with literal indices) used as masks in the terms."""
    out = {}
    seen = set()
    stack = list(terms)

    def is_const_arr(t):
        while z3.is_app(t) and t.decl().kind() == z3.Z3_OP_STORE:
            from .engine import _is_literal_term
            if not _is_literal_term(t.arg(1)):
                return False
            t = t.arg(0)
        return z3.is_app(t) and t.decl().kind() == z3.Z3_OP_CONST_ARRAY
    while stack:
        t = stack.pop()
        if t.get_id() in seen:
            continue
        seen.add(t.get_id())
        if z3.is_app(t):
            if t.sort() == smt.SetA and t.decl().kind() == z3.Z3_OP_STORE and is_const_arr(t):
                out[t.get_id()] = t
                continue
            stack.extend(t.children())
    return list(out.values())


def pointwise_lemmas(ctx, hyps, terms, timeout_ms):
    apps = _apps_of(terms, set(ctx.folds))
    names = sorted(apps)
    out = []
    K = z3.Int("K!pw")
    t_end = time.time() + max(60, timeout_ms / 1000 * 6)      # whole-lemma budget per obligation
    # minimality of FIRST folds at the symbolic point: no index below the first exit index satisfies the exit condition
    first_min = []
    for n in names:
        fi = ctx.folds[n]
        if fi.kind == "first":
            seen_ids = set()
            for a in apps[n]:
                if a.get_id() in seen_ids:
                    continue
                seen_ids.add(a.get_id())
                first_min.append(z3.Implies(z3.And(a.arg(0) <= K, K < a), z3.Not(z3.substitute(fi.piece, (fi.K0, K)))))
    for i, a in enumerate(names):
        for b in names[i + 1:]:
            fa, fb = ctx.folds[a], ctx.folds[b]
            if fa.kind != fb.kind or fa.fn.range() != fb.fn.range():
                continue
            if time.time() > t_end:
                return out
            # pairs of applications over (provably) the same range
            pairs = []
            for x in apps[a]:
                for y in apps[b]:
                    if (x.get_id(), y.get_id()) not in {(p.get_id(), q.get_id()) for p, q in pairs}:
                        pairs.append((x, y))
            for x, y in pairs[:6]:
                lo, hi = x.arg(0), x.arg(1)
                s = z3.Solver()
                s.set("timeout", min(timeout_ms, 1500))
                for h in hyps:
                    s.add(h)
                s.add(lo == y.arg(0), hi == y.arg(1))
                for fm in first_min:
                    s.add(fm)
                pa, pb = z3.substitute(fa.piece, (fa.K0, K)), z3.substitute(fb.piece, (fb.K0, K))
                for f in fa.facts:
                    s.add(z3.substitute(f, (fa.K0, K)))
                for f in fb.facts:
                    s.add(z3.substitute(f, (fb.K0, K)))
                s.add(lo <= K, K < hi, pa != pb)
                ok = s.check() == z3.unsat
                if not ok and fa.kind in ("seq", "str", "set") and time.time() < t_end:
                    side = list(hyps) + [lo == y.arg(0), hi == y.arg(1), lo <= K, K < hi]
                    side += [z3.substitute(f, (fa.K0, K)) for f in fa.facts] + [z3.substitute(f, (fb.K0, K)) for f in fb.facts]
                    ok = equal_by_cases(side, pa, pb, {"leaves": 3000, "deadline": time.time() + max(20, timeout_ms / 1000 * 3)})
                if ok:
                    out.append(z3.Implies(z3.And(lo == y.arg(0), hi == y.arg(1)), x == y))
                elif fa.kind == "set":
                    # equality under a constant mask (set difference with a literal set): point-wise masked equality
                    for M in _const_masks(terms):
                        s2 = z3.Solver()
                        s2.set("timeout", min(timeout_ms, 3000))
                        for h in hyps:
                            s2.add(h)
                        s2.add(lo == y.arg(0), hi == y.arg(1), lo <= K, K < hi)
                        for f in fa.facts:
                            s2.add(z3.substitute(f, (fa.K0, K)))
                        for f in fb.facts:
                            s2.add(z3.substitute(f, (fb.K0, K)))
                        s2.add(z3.SetIntersect(pa, M) != z3.SetIntersect(pb, M))
                        if s2.check() == z3.unsat:
                            out.append(z3.Implies(z3.And(lo == y.arg(0), hi == y.arg(1)),
                                                  z3.SetIntersect(x, M) == z3.SetIntersect(y, M)))
    return out


def _contains_chars(terms):
    """Single-character string literals c occurring as Contains(_, c) in terms."""
    out = {}
    seen = set()
    stack = list(terms)
    while stack:
        t = stack.pop()
        if t.get_id() in seen:
            continue
        seen.add(t.get_id())
        if z3.is_app(t):
            if t.decl().kind() == z3.Z3_OP_SEQ_CONTAINS and z3.is_string_value(t.arg(1)):
                c = t.arg(1).as_string()
                if len(c) == 1:
                    out[c] = t.arg(1)
            stack.extend(t.children())
    return list(out.values())


def char_absence_lemmas(ctx, hyps, terms, timeout_ms):
    """Induction lemma for string folds: if no piece contains the character c, the fold does not either."""
    apps = _apps_of(terms, {n for n, f in ctx.folds.items() if f.kind == "str"})
    chars = _contains_chars(terms)
    out = []
    K = z3.Int("K!ca")
    for name, alist in apps.items():
        fi = ctx.folds[name]
        seen = set()
        for a in alist:
            if a.get_id() in seen:
                continue
            seen.add(a.get_id())
            lo, hi = a.arg(0), a.arg(1)
            for c in chars:
                s = z3.Solver()
                s.set("timeout", min(timeout_ms, 5000))
                for h in hyps:
                    s.add(h)
                for f in fi.facts:
                    s.add(z3.substitute(f, (fi.K0, K)))
                s.add(lo <= K, K < hi, z3.Contains(z3.substitute(fi.piece, (fi.K0, K)), c))
                if s.check() == z3.unsat:
                    out.append(z3.Not(z3.Contains(a, c)))
    return out


def to_cvc5(text):
    """z3's printer uses a few z3-only symbols; translate the common ones, give up otherwise."""
    if "lambda" in text or "as-array" in text:
        return None
    # seq.nth_i (in-bounds nth) and seq.nth_u (unspecified out-of-bounds value) are both instances of the total
    # SMT-LIB seq.nth
    t = text.replace("seq.nth_u", "seq.nth").replace("seq.nth_i", "seq.nth")
    t = t.replace("(set-info :status unknown)", "")
    if "(set-logic" not in t:
        t = "(set-logic ALL)\n" + t
    t = t.replace("(check-sat)", "(check-sat)\n")
    return t


def at_instances(terms):
    """AT(s, i) is seq.nth(s, i) for in-range i."""
    out = []
    seen = set()
    for a in _apps_of(terms, {"AT"}).get("AT", []):
        if a.get_id() in seen:
            continue
        seen.add(a.get_id())
        s, i = a.arg(0), a.arg(1)
        out.append(z3.Implies(z3.And(0 <= i, i < z3.Length(s)), a == s[i]))
    return out


def aux_instances(ctx, terms):
    """Ground instances of the axioms of Counter / hash_fs (functions of the multiset of a list under lawful
    element equality): Counter(a)==Counter(b) => hash_fs(a)==hash_fs(b); Counter is a congruence for prefixing;
    element-wise equal unit lists have equal Counter and hash_fs."""
    out = []
    for a in _apps_of(terms, {"pyeq"}).get("pyeq", []):
        x, y = a.arg(0), a.arg(1)
        out.append(smt.pyeq(x, y) == smt.pyeq(y, x))
        out.append(z3.Implies(smt.pyeq(x, y), smt.pyhash(x) == smt.pyhash(y)))
    apps = _apps_of(terms, {"Counter", "hash_fs"})
    cnt = ctx.uf.get("Counter")
    hfs = ctx.uf.get("hash_fs")
    seqs = []
    for n in ("Counter", "hash_fs"):
        for a in apps.get(n, []):
            if a.arg(0).get_id() not in {x.get_id() for x in seqs}:
                seqs.append(a.arg(0))
    if cnt is None:
        import z3 as _z
        cnt = ctx.func("Counter", smt.SeqV, V)
    if hfs is None:
        hfs = ctx.func("hash_fs", smt.SeqV, smt.IntS)
    for i, a in enumerate(seqs):
        for b in seqs[i + 1:]:
            out.append(z3.Implies(cnt(a) == cnt(b), hfs(a) == hfs(b)))
            # common prefix: [p...] ++ a' vs [p...] ++ b'
            ia, ib = _split_units(a), _split_units(b)
            if ia is not None and ib is not None:
                (pa, ra), (pb, rb) = ia, ib
                if len(pa) == len(pb) and pa and not (ra is None and rb is None):
                    ra = ra if ra is not None else smt.EMPTY_SEQ
                    rb = rb if rb is not None else smt.EMPTY_SEQ
                    pre = z3.And([x == y for x, y in zip(pa, pb)]) if pa else z3.BoolVal(True)
                    out.append(z3.Implies(z3.And(pre, cnt(ra) == cnt(rb)), cnt(a) == cnt(b)))
                # common suffix: a' ++ [s...] vs b' ++ [s...]
                sa, sb = _split_units_suffix(a), _split_units_suffix(b)
                if sa is not None and sb is not None and sa[1] and sb[1] and len(sa[1]) == len(sb[1]) \
                        and not (sa[0] is None and sb[0] is None):
                    suf = z3.And([z3.Or(x == y, smt.pyeq(x, y)) for x, y in zip(sa[1], sb[1])])
                    r1 = sa[0] if sa[0] is not None else smt.EMPTY_SEQ
                    r2 = sb[0] if sb[0] is not None else smt.EMPTY_SEQ
                    out.append(z3.Implies(z3.And(suf, cnt(r1) == cnt(r2)), cnt(a) == cnt(b)))
                if ra is None and rb is None and len(pa) == len(pb):
                    el = z3.And([z3.Or(x == y, smt.pyeq(x, y)) for x, y in zip(pa, pb)]) if pa else z3.BoolVal(True)
                    out.append(z3.Implies(el, z3.And(cnt(a) == cnt(b), hfs(a) == hfs(b))))
    return out


def _flat_concat(seq):
    if z3.is_app(seq) and seq.decl().kind() == z3.Z3_OP_SEQ_CONCAT:
        out = []
        for c in seq.children():
            out += _flat_concat(c)
        return out
    return [seq]


def _split_units_suffix(seq):
    """seq == rest ++ [u1..un] -> (rest|None, [u1..un])"""
    seq = simp(seq)
    if z3.is_app(seq) and seq.decl().kind() == z3.Z3_OP_ITE:
        a, b = _split_units_suffix(seq.arg(1)), _split_units_suffix(seq.arg(2))
        if a[0] is not None and b[0] is not None and len(a[1]) == len(b[1]) and all(z3.eq(x, y) for x, y in zip(a[1], b[1])):
            return z3.If(seq.arg(0), a[0], b[0]), a[1]
        return seq, []
    if z3.is_app(seq) and seq.decl().kind() == z3.Z3_OP_SEQ_CONCAT:
        ch = _flat_concat(seq)
        units = []
        i = len(ch)
        while i > 0 and z3.is_app(ch[i - 1]) and ch[i - 1].decl().kind() == z3.Z3_OP_SEQ_UNIT:
            units.insert(0, ch[i - 1].arg(0))
            i -= 1
        rest = ch[:i]
        if not rest:
            return None, units
        return (z3.Concat(*rest) if len(rest) > 1 else rest[0]), units
    return seq, []


def _split_units(seq):
    """seq == [u1..un] ++ rest  ->  ([u1..un], rest|None)"""
    seq = simp(seq)
    if z3.is_app(seq):
        k = seq.decl().kind()
        if k == z3.Z3_OP_ITE:
            a, b = _split_units(seq.arg(1)), _split_units(seq.arg(2))
            if a[1] is not None and b[1] is not None and len(a[0]) == len(b[0]) and all(z3.eq(x, y) for x, y in zip(a[0], b[0])):
                return a[0], z3.If(seq.arg(0), a[1], b[1])
            return [], seq
        if k == z3.Z3_OP_SEQ_EMPTY:
            return [], None
        if k == z3.Z3_OP_SEQ_UNIT:
            return [seq.arg(0)], None
        if k == z3.Z3_OP_SEQ_CONCAT:
            units = []
            ch = _flat_concat(seq)
            i = 0
            while i < len(ch) and z3.is_app(ch[i]) and ch[i].decl().kind() == z3.Z3_OP_SEQ_UNIT:
                units.append(ch[i].arg(0))
                i += 1
            rest = ch[i:]
            if not rest:
                return units, None
            return units, (z3.Concat(*rest) if len(rest) > 1 else rest[0])
    return [], seq
