"""Discharging obligations: fold-axiom instantiation, in-process z3, CLI portfolio (z3 4.8.12, cvc5)."""
from __future__ import annotations

import os
import subprocess
import tempfile
import time

import z3

from . import smt
from .smt import V, simp


def _apps_of(terms, names):
    """All applications of the named functions occurring in terms: {name: [app terms]}"""
    out = {}
    seen = set()
    stack = list(terms)
    while stack:
        t = stack.pop()
        i = t.get_id()
        if i in seen:
            continue
        seen.add(i)
        if z3.is_app(t):
            n = t.decl().name()
            if n in names and t.num_args() > 0:
                out.setdefault(n, []).append(t)
            stack.extend(t.children())
        elif z3.is_quantifier(t):
            stack.append(t.body())
    return out


def fold_instances(ctx, terms, rounds=2):
    """Ground instances of the defining equations of the fold symbols occurring in `terms`."""
    facts = []
    done = set()
    cur = list(terms)
    for _ in range(rounds):
        apps = _apps_of(cur, set(ctx.folds))
        new = []
        for name, alist in apps.items():
            fi = ctx.folds[name]
            uniq = []
            for a in alist:
                if a.get_id() not in {u.get_id() for u in uniq}:
                    uniq.append(a)
            for a in uniq:
                key = ("u", a.get_id())
                if key in done:
                    continue
                done.add(key)
                lo, hi = a.arg(0), a.arg(1)
                new += _unit_facts(ctx, fi, a, lo, hi)
            # range splits between applications of the same fold
            pts = []
            for a in uniq:
                for x in (a.arg(0), a.arg(1)):
                    if x.get_id() not in {p.get_id() for p in pts}:
                        pts.append(x)
            for a in uniq:
                lo, hi = a.arg(0), a.arg(1)
                for m in pts:
                    if z3.eq(m, lo) or z3.eq(m, hi):
                        continue
                    key = ("s", a.get_id(), m.get_id())
                    if key in done:
                        continue
                    done.add(key)
                    new += _split_fact(ctx, fi, lo, m, hi)
        if not new:
            break
        facts += new
        cur = new
    return facts


def _piece_at(fi, k):
    return z3.substitute(fi.piece, (fi.K0, k))


def _body_facts_at(fi, k):
    return [z3.substitute(f, (fi.K0, k)) for f in fi.facts]


def _unit_facts(ctx, fi, app, lo, hi):
    f = fi.fn
    out = []
    if fi.kind == "seq":
        out.append(z3.Implies(hi <= lo, app == smt.EMPTY_SEQ))
        out.append(z3.Implies(hi == lo + 1, app == _piece_at(fi, lo)))
        if fi.unit_len is not None:
            out.append(z3.Implies(hi >= lo, z3.Length(app) == fi.unit_len * (hi - lo)))
    elif fi.kind == "str":
        out.append(z3.Implies(hi <= lo, app == z3.StringVal("")))
        out.append(z3.Implies(hi == lo + 1, app == _piece_at(fi, lo)))
    elif fi.kind == "set":
        out.append(z3.Implies(hi <= lo, app == smt.EMPTY_SET))
        out.append(z3.Implies(hi == lo + 1, app == _piece_at(fi, lo)))
    elif fi.kind == "int":
        out.append(z3.Implies(hi <= lo, app == 0))
        out.append(z3.Implies(hi == lo + 1, app == _piece_at(fi, lo)))
    elif fi.kind == "last":
        # greatest index in [lo,hi) satisfying cond, or lo-1
        out.append(z3.And(app >= lo - 1, z3.Or(app < hi, app == lo - 1)))
        out.append(z3.Implies(app >= lo, z3.substitute(fi.piece, (fi.K0, app))))
        out.append(z3.Implies(hi <= lo, app == lo - 1))
        out.append(z3.Implies(hi == lo + 1, app == z3.If(_piece_at(fi, lo), lo, lo - 1)))
        out += [z3.Implies(app >= lo, bf) for bf in _body_facts_at(fi, app)]
    elif fi.kind == "first":
        out.append(z3.Or(z3.And(app >= lo, app <= hi), z3.And(hi < lo, app == hi)))
        out.append(z3.Implies(z3.And(app >= lo, app < hi), z3.substitute(fi.piece, (fi.K0, app))))
        out.append(z3.Implies(hi <= lo, app == hi))
        out.append(z3.Implies(hi == lo + 1, app == z3.If(_piece_at(fi, lo), lo, hi)))
    if fi.kind in ("seq", "str", "set", "int"):
        out += [z3.Implies(hi == lo + 1, bf) for bf in _body_facts_at(fi, lo)]
    return out


def _split_fact(ctx, fi, lo, m, hi):
    f = fi.fn
    g = z3.And(lo <= m, m <= hi)
    if fi.kind in ("seq", "str"):
        return [z3.Implies(g, f(lo, hi) == z3.Concat(f(lo, m), f(m, hi)))]
    if fi.kind == "set":
        return [z3.Implies(g, f(lo, hi) == z3.SetUnion(f(lo, m), f(m, hi)))]
    if fi.kind == "int":
        return [z3.Implies(g, f(lo, hi) == f(lo, m) + f(m, hi))]
    if fi.kind == "first":
        return [z3.Implies(g, f(lo, hi) == z3.If(f(lo, m) < m, f(lo, m), f(m, hi)))]
    if fi.kind == "last":
        return [z3.Implies(g, f(lo, hi) == z3.If(f(m, hi) >= m, f(m, hi), z3.If(f(lo, m) >= lo, f(lo, m), lo - 1)))]
    return []


# ------------------------------------------------------------------------------------------------ solving
def make_solver(hyps, goal, timeout_ms):
    s = z3.Solver()
    s.set("timeout", timeout_ms)
    for h in hyps:
        s.add(h)
    s.add(z3.Not(goal))
    return s


def smt2_text(hyps, goal, logic="ALL"):
    s = z3.Solver()
    for h in hyps:
        s.add(h)
    s.add(z3.Not(goal))
    return s.to_smt2()


def run_cli(cmd, text, timeout_s):
    with tempfile.NamedTemporaryFile("w", suffix=".smt2", delete=False, dir=os.environ.get("PYVC_TMP", None)) as f:
        f.write(text)
        name = f.name
    try:
        t = time.time()
        r = subprocess.run(cmd + [name], capture_output=True, text=True, timeout=timeout_s + 2)
        out = (r.stdout or "").strip().splitlines()
        verdict = out[0].strip() if out else "unknown"
        if verdict not in ("sat", "unsat", "unknown"):
            verdict = "unknown"
        return verdict, time.time() - t
    except subprocess.TimeoutExpired:
        return "unknown", timeout_s
    finally:
        try:
            os.unlink(name)
        except OSError:
            pass


def discharge(ctx, ob, timeout_ms=10000, portfolio=True):
    """Decide one obligation. Sets ob.status in {discharged, failed, unknown}."""
    if ob.status != "open":
        return ob
    t0 = time.time()
    hyps = list(ob.hyps)
    if ob.expect_sat:
        # cover obligation: the hypotheses must be satisfiable
        s = z3.Solver()
        s.set("timeout", timeout_ms)
        for h in hyps:
            s.add(h)
        r = s.check()
        ob.seconds = time.time() - t0
        ob.backend = "z3-" + z3.get_version_string()
        ob.status = "discharged" if r == z3.sat else ("failed" if r == z3.unsat else "unknown")
        if r == z3.unsat:
            ob.model_text = "precondition unsatisfiable (vacuous contract)"
        return ob
    inst = fold_instances(ctx, hyps + [ob.goal])
    inst += aux_instances(ctx, hyps + [ob.goal] + inst)
    s = make_solver(hyps + inst, ob.goal, timeout_ms)
    r = s.check()
    ob.seconds = time.time() - t0
    ob.backend = "z3-" + z3.get_version_string()
    if r == z3.unsat:
        ob.status = "discharged"
        return ob
    if r == z3.sat:
        ob.status = "failed"
        try:
            ob.model = s.model()
            ob.model_text = str(ob.model)[:4000]
        except z3.Z3Exception:
            pass
        return ob
    # unknown: portfolio
    ob.status = "unknown"
    ob.model_text = "z3: " + s.reason_unknown()
    if portfolio:
        try:
            text = s.to_smt2()
        except z3.Z3Exception:
            return ob
        for label, cmd in (("z3-4.8.12", ["/usr/bin/z3", f"-T:{max(1, timeout_ms // 1000)}"]),
                           ("cvc5-1.0.3", ["/usr/bin/cvc5", "--strings-exp", "--dt-nested-rec", f"--tlimit={timeout_ms}"])):
            if not os.path.exists(cmd[0]):
                continue
            txt = text if label.startswith("z3") else to_cvc5(text)
            if txt is None:
                continue
            verdict, secs = run_cli(cmd, txt, max(1, timeout_ms // 1000))
            ob.seconds += secs
            if verdict == "unsat":
                ob.status = "discharged"
                ob.backend = label
                return ob
            if verdict == "sat" and label.startswith("z3"):
                ob.status = "failed"
                ob.backend = label
                ob.model_text = "sat (z3 4.8.12 CLI); no model extracted"
                return ob
    return ob


def to_cvc5(text):
    """z3's printer uses a few z3-only symbols; translate the common ones, give up otherwise."""
    if "seq.nth_u" in text or "seq.nth_i" in text or "lambda" in text or "as-array" in text:
        return None
    t = text.replace("(set-info :status unknown)", "")
    if "(set-logic" not in t:
        t = "(set-logic ALL)\n" + t
    t = t.replace("(check-sat)", "(check-sat)\n")
    return t


def aux_instances(ctx, terms):
    """Instances of axioms for sort / set_perm / seq_elems helper symbols (membership, permutation)."""
    return []
