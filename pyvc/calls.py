"""Calls: modular (by contract), inlined (small uncontracted repo helpers), builtin models, external havoc."""
from __future__ import annotations

import ast

import z3

from . import smt
from .expr import (Frame, _ClsUnion, _ConstSet, ev, ev_list, get_attr, mangle, possible_classes, py_eq, py_in,
                   rec_lookup, subscript, to_str_term, _where)
from .smt import V, simp
from .state import Outcome
from .values import (Bound, Builtin, ClassRef, Closure, ExtFunc, FuncRef, ModRef, SpecConst, Unsupported, Val,
                     ann_elem, ann_fact, ann_mutable)


class Raised(Exception):
    """Internal: a call raised on this path (propagated as an Outcome by the statement layer)."""

    def __init__(self, path, exc):
        self.path, self.exc = path, exc


# ------------------------------------------------------------------------------------------------ call evaluation
def eval_call(ctx, fr, path, node):
    if fr.spec and isinstance(node.func, ast.Name) and node.func.id not in path.env:
        from .contracts import SPEC_FORMS, eval_spec_form
        if node.func.id in SPEC_FORMS:
            yield from eval_spec_form(ctx, fr, path, node)
            return
    for p, f in ev(ctx, fr, path, node.func):
        # arguments
        pos_nodes = node.args
        kw_nodes = node.keywords
        if any(k.arg is None for k in kw_nodes):
            raise Unsupported("**kwargs call")
        # builtins that need unevaluated / special argument handling
        if isinstance(f, Builtin) and f.name in ("isinstance", "hasattr", "getattr", "any", "all", "sorted", "list",
                                                 "set", "tuple", "frozenset", "next", "sum", "min", "max", "enumerate",
                                                 "zip", "range", "iter", "dict"):
            yield from call_builtin_special(ctx, fr, p, f.name, node)
            continue
        if isinstance(f, Bound) and f.callee == "join" and len(pos_nodes) == 1:
            yield from str_join(ctx, fr, p, f.selfv, pos_nodes[0], node)
            continue
        if isinstance(f, Bound) and isinstance(f.callee, str) and f.callee in ("sort",) :
            yield from list_sort(ctx, fr, p, f, node)
            continue
        for q, parts in _eval_args(ctx, fr, p, pos_nodes):
            for r, kwvals in ev_list(ctx, fr, q, [k.value for k in kw_nodes]):
                kwargs = {k.arg: v for k, v in zip(kw_nodes, kwvals)}
                yield from apply(ctx, fr, r, f, parts, kwargs, node)


def _eval_args(ctx, fr, path, nodes):
    def go(p, i, acc):
        if i == len(nodes):
            yield p, acc
            return
        n = nodes[i]
        if isinstance(n, ast.Starred):
            for q, v in ev(ctx, fr, p, n.value):
                items = smt.unit_items(ctx.as_seq(q, v))
                if items is None:
                    raise Unsupported("*args with symbolic length")
                ea = ann_elem(v.ann)
                yield from go(q, i + 1, acc + [Val(it, ea, own=v.own) for it in items])
        else:
            for q, v in ev(ctx, fr, p, n):
                yield from go(q, i + 1, acc + [v])
    yield from go(path, 0, [])


def apply(ctx, fr, path, f, args, kwargs, node=None):
    """Apply a callable engine value. Yields (path, value). Raising paths are recorded on ctx.pending_raises."""
    if isinstance(f, FuncRef):
        yield from call_function(ctx, fr, path, f, args, kwargs, node)
    elif isinstance(f, Bound):
        if isinstance(f.callee, FuncRef):
            yield from call_function(ctx, fr, path, f.callee, [f.selfv] + args, kwargs, node)
        elif isinstance(f.callee, ExtFunc):
            # method of an object of an external class: external call with the receiver as first argument
            yield from call_extern(ctx, fr, path, f.callee.qualname, [f.selfv] + args, kwargs, node)
        else:
            yield from call_method_builtin(ctx, fr, path, f.selfv, f.callee, args, kwargs, node)
    elif isinstance(f, ClassRef):
        yield from instantiate(ctx, fr, path, f.info, args, kwargs, node)
    elif isinstance(f, Builtin):
        yield from call_builtin(ctx, fr, path, f.name, args, kwargs, node)
    elif isinstance(f, Closure):
        yield from call_closure(ctx, fr, path, f, args, kwargs, node)
    elif isinstance(f, ExtFunc):
        yield from call_extern(ctx, fr, path, f.qualname, args, kwargs, node)
    elif isinstance(f, Val):
        yield from call_value(ctx, fr, path, f, args, kwargs, node)
    else:
        raise Unsupported(f"call of {type(f).__name__} ({_where(node)})")


def call_value(ctx, fr, path, f, args, kwargs, node):
    """Call of a first-class value: class value (VCls) or function value."""
    t = simp(f.t)
    k = ctx.kind(f)
    if k == "VCls" or smt.ctor(t) == "VCls":
        cid = simp(V.cid(t))
        if z3.is_int_value(cid):
            yield from instantiate(ctx, fr, path, ctx.ct.by_cid[cid.as_long()], args, kwargs, node)
            return
        # finite case split over the class ids mentioned in the term
        ids = sorted({c.as_long() for c in _int_leaves(cid)})
        for i in ids:
            if i in ctx.ct.by_cid:
                for q, tv in ctx.branch(path, cid == i, "clsval"):
                    if tv:
                        yield from instantiate(ctx, fr, q, ctx.ct.by_cid[i], args, kwargs, node)
        return
    raise Unsupported(f"call of a symbolic value ({_where(node)})")


def _int_leaves(t):
    out = []
    def walk(x):
        if z3.is_int_value(x):
            out.append(x)
        for c in x.children():
            walk(c)
    walk(t)
    return out


# ------------------------------------------------------------------------------------------------ repo functions
def bind_params(ctx, fr, path, fdef, args, kwargs, mi, cls):
    """Python parameter binding incl. defaults. Returns env dict."""
    a = fdef.args
    params = [x.arg for x in a.posonlyargs + a.args]
    env = {}
    if len(args) > len(params) and a.vararg is None:
        raise Unsupported(f"too many positional arguments for {fdef.name}")
    for n, v in zip(params, args):
        env[n] = v
    if a.vararg is not None:
        rest = args[len(params):]
        env[a.vararg.arg] = Val(V.VTuple(smt.seq_of_list([ctx.toV(x).t for x in rest])), ("tuple", []))
    for k, v in kwargs.items():
        if k in env:
            raise Unsupported(f"duplicate argument {k}")
        env[k] = v
    defaults = a.defaults
    dparams = params[len(params) - len(defaults):] if defaults else []
    dfr = Frame(mi, cls=cls)
    for n, d in zip(dparams, defaults):
        if n not in env:
            outs = list(ev(ctx, dfr, path, d))
            env[n] = outs[0][1]
    for kwa, d in zip(a.kwonlyargs, a.kw_defaults):
        if kwa.arg not in env:
            if d is None:
                raise Unsupported(f"missing keyword-only argument {kwa.arg}")
            env[kwa.arg] = list(ev(ctx, dfr, path, d))[0][1]
    for n in params:
        if n not in env:
            raise Unsupported(f"missing argument {n} for {fdef.name}")
    return env


def call_function(ctx, fr, path, f: FuncRef, args, kwargs, node=None):
    target = f.target
    reg = ctx.registry
    contract = reg.lookup(target) if reg is not None else None
    if fr.spec and contract is None and f.mi.is_spec:
        # spec function
        yield from call_spec_function(ctx, fr, path, f, args, kwargs, node)
        return
    if contract is not None and not (ctx.current is not None and ctx.current.inline_targets and target in ctx.current.inline_targets):
        yield from apply_contract(ctx, fr, path, f, contract, args, kwargs, node)
        return
    if f.mi.is_spec:
        yield from call_spec_function(ctx, fr, path, f, args, kwargs, node)
        return
    # inline
    if target in ctx.call_stack:
        raise Unsupported(f"recursive call of {target} without a contract")
    if len(ctx.call_stack) > ctx.inline_depth + 4:
        raise Unsupported(f"inline depth exceeded at {target}")
    env = bind_params(ctx, fr, path, f.node, args, kwargs, f.mi, f.cls)
    yield from run_body(ctx, path, f, env, node)


def is_generator(fdef):
    for n in ast.walk(fdef):
        if isinstance(n, (ast.Yield, ast.YieldFrom)):
            return True
    return False


def run_body(ctx, path, f: FuncRef, env, node=None, spec=False, frame_extra=None):
    from .source import strip_docstring
    from .stmt import exec_block
    if is_generator(f.node):
        if f.qualname == "result_name_generator" and not env:
            # the repository's only generator: modelled by a ghost counter (next() yields result_1, result_2, ...;
            # see contracts.generator_next). The model is an assumption about its three-line body.
            g = Val(ctx.newV("gen"), ("gen", "result_name"), own="fresh")
            path.ghost[("gen", simp(g.t).sexpr())] = Val(V.VInt(z3.IntVal(0)), ("int",))
            path.note("result_name_generator(): modelled by a ghost counter (assumed: yields result_1, result_2, ... in order)")
            yield path, g
            return
        raise Unsupported(f"generator function {f.qualname} must be used through its contract")
    saved_env = path.env
    path.env = dict(env)
    nfr = Frame(f.mi, func=f, cls=f.cls, depth=0, spec=spec)
    if frame_extra:
        for k, v in frame_extra.items():
            setattr(nfr, k, v)
    ctx.call_stack.append(f.target)
    try:
        outs = exec_block(ctx, nfr, path, strip_docstring(f.node.body))
    finally:
        ctx.call_stack.pop()
    for p, o in outs:
        p.env = saved_env if p is path else dict(saved_env)
        if o.kind == "ret":
            yield p, o.value
        elif o.kind == "fall":
            yield p, ctx.lift(None)
        elif o.kind == "raise":
            ctx.pending_raises.append((p, o.value))
        else:
            raise Unsupported("break/continue escaping function")


class _RaisedMarker:
    def __init__(self, exc):
        self.exc = exc


def call_closure(ctx, fr, path, c: Closure, args, kwargs, node=None):
    from .stmt import exec_block
    if isinstance(c.node, ast.Lambda):
        env = dict(c.env)
        fake = ast.FunctionDef(name="<lambda>", args=c.node.args, body=[], decorator_list=[])
        env.update(bind_params(ctx, fr, path, fake, args, kwargs, c.mi, fr.cls))
        saved = path.env
        path.env = env
        nfr = Frame(c.mi, func=fr.func, cls=fr.cls, spec=fr.spec)
        nfr.old_path, nfr.result = fr.old_path, fr.result
        for p, v in ev(ctx, nfr, path, c.node.body):
            p.env = saved if p is path else dict(saved)
            yield p, v
        return
    # nested def: closes over the defining environment (by reference to its current values)
    env = dict(c.env)
    env.update(bind_params(ctx, fr, path, c.node, args, kwargs, c.mi, fr.cls))
    f = FuncRef(c.mi, fr.cls, c.node)
    yield from run_body(ctx, path, f, env, node, spec=fr.spec)


# ------------------------------------------------------------------------------------------------ contracts
def apply_contract(ctx, fr, path, f: FuncRef, contract, args, kwargs, node=None):
    """Modular call: check requires, havoc modifies, assume ensures."""
    env = bind_params(ctx, fr, path, f.node, args, kwargs, f.mi, f.cls)
    env = {k: (ctx.toV(v) if not isinstance(v, (Val, Closure)) and isinstance(v, (ClassRef,)) else v) for k, v in env.items()}
    from .contracts import apply_contract_at_call
    yield from apply_contract_at_call(ctx, fr, path, f, contract, env, node)


def call_spec_function(ctx, fr, path, f: FuncRef, args, kwargs, node=None):
    from .contracts import call_spec
    yield from call_spec(ctx, fr, path, f, args, kwargs, node)


# ------------------------------------------------------------------------------------------------ instantiation
def instantiate(ctx, fr, path, ci, args, kwargs, node=None):
    if ci.extern is not None:
        yield from call_extern(ctx, fr, path, ci.qualname, args, kwargs, node, result_ann=("obj", ci))
        return
    if any(c.qualname.startswith("builtins.") and c.name != "object" for c in ci.mro()) and ci.node is None:
        # builtin exception classes
        o = ctx.alloc_obj(path, ci)
        if args:
            ctx.write_field(path, o, "exc_arg0", ctx.toV(args[0]))
        yield path, o
        return
    o = ctx.alloc_obj(path, ci)
    init = ci.lookup("__init__")
    if init is not None:
        for p, _ in call_function(ctx, fr, path, init, [o] + args, kwargs, node):
            yield p, o
        return
    if ci.dataclass or any(c.dataclass for c in ci.mro()):
        fields = ci.all_fields()
        names = list(fields)
        if len(args) > len(names):
            raise Unsupported(f"too many arguments for dataclass {ci.name}")
        given = dict(zip(names, args))
        for k, v in kwargs.items():
            if k not in fields:
                raise Unsupported(f"unknown field {k} for {ci.name}")
            given[k] = v
        paths = [path]
        for n in names:
            nxt = []
            for p in paths:
                if n in given:
                    ctx.write_field(p, o, n, ctx.toV(given[n]))
                    nxt.append(p)
                else:
                    d = None
                    owner = None
                    for c in ci.mro():
                        if n in c.field_defaults:
                            d, owner = c.field_defaults[n], c
                            break
                    if d is None:
                        raise Unsupported(f"missing field {n} for {ci.name}")
                    dfr = Frame(owner.mi, cls=owner)
                    if isinstance(d, tuple):
                        for q, fac in ev(ctx, dfr, p, d[1]):
                            for r, v in apply(ctx, dfr, q, fac, [], {}, node):
                                ctx.write_field(r, o, n, ctx.toV(v))
                                nxt.append(r)
                    else:
                        for q, v in ev(ctx, dfr, p, d):
                            ctx.write_field(q, o, n, ctx.toV(v))
                            nxt.append(q)
            paths = nxt
        for p in paths:
            yield p, o
        return
    if ci.is_enum:
        raise Unsupported("enum call")
    # plain class without __init__
    if any(c.name in ("Exception",) for c in ci.mro()):
        yield path, o
        return
    yield path, o


# ------------------------------------------------------------------------------------------------ externals
def call_extern(ctx, fr, path, qualname, args, kwargs, node=None, result_ann=None):
    """External library call: result is an uninterpreted function of the call site and arguments; no effect
    on verified state. Special cases: logging (no-op / ghost log), deepcopy, dataclasses.replace, Counter."""
    short = qualname.split(".")[-1]
    if qualname.startswith("logging."):
        if short in ("warning", "error"):
            log = path.ghost.get("LOG")
            seq = ctx.as_seq(path, log) if log is not None else smt.EMPTY_SEQ
            item = ctx.toV(args[0]).t if args else V.VNone
            path.ghost["LOG"] = Val(V.VList(simp(z3.Concat(seq, z3.Unit(item)))), ("list", ("str",)))
        yield path, ctx.lift(None)
        return
    if qualname in ("copy.deepcopy", "copy.copy"):
        v = args[0]
        if isinstance(v, Val):
            if ctx.kind(v) == "VSet":
                yield path, ctx.mk_set(path, ctx.set_arr(path, v), v.ann)
                return
            yield path, Val(v.t, v.ann, own="fresh", deep=(qualname == "copy.deepcopy"))
            return
    if qualname == "dataclasses.replace":
        yield from dc_replace(ctx, fr, path, args[0], kwargs, node)
        return
    if qualname in ("collections.Counter",):
        v = args[0]
        seq = ctx.as_seq(path, v)
        cnt = ctx.func("Counter", smt.SeqV, V)
        path.note("Counter(xs): uninterpreted multiset of xs under element ==/hash")
        yield path, Val(cnt(seq), ("counter",))
        return
    if qualname in ("collections.defaultdict",):
        d = ctx.mk_dict(path, smt.EMPTY_SET, z3.K(V, V.VNone), smt.EMPTY_SEQ, ("dict", None, None, True))
        yield path, d
        return
    if qualname == "itertools.zip_longest":
        raise Unsupported("zip_longest outside a for header")
    if qualname == "inspect.cleandoc":
        f = ctx.func("cleandoc", smt.StrS, smt.StrS)
        path.note("inspect.cleandoc: uninterpreted function (external)")
        yield path, Val(V.VStr(f(ctx.as_str(path, args[0]))), ("str",))
        return
    # generic havoc: deterministic function of the site and the argument values
    site = f"ext_{qualname}"
    vs = [ctx.toV(a).t for a in args if isinstance(a, (Val, ClassRef))] + \
         [ctx.toV(v).t for k, v in sorted(kwargs.items()) if isinstance(v, (Val, ClassRef))]
    fn = ctx.func(f"{site}/{len(vs)}", *([V] * len(vs)), V)
    res = fn(*vs) if vs else ctx.func(f"{site}/0", V)
    if not vs:
        res = z3.Const(f"{site}!const", V)
    path.note(f"external call {qualname}: result havocked (function of its arguments), no effect on verified state")
    if "EXT" in path.ghost and not ctx.spec_mode:
        # ghost log of the external calls of this activation: (qualified name, argument values..., result)
        log = path.ghost["EXT"]
        rec = V.VTuple(smt.seq_of_list([V.VStr(z3.StringVal(qualname))] + vs + [res]))
        path.ghost["EXT"] = Val(V.VList(simp(z3.Concat(ctx.as_seq(path, log), z3.Unit(rec)))), ("list", None))
    if result_ann is None:
        result_ann = ctx.extern_return_ann(qualname)
        if result_ann is not None:
            path.note(f"external call {qualname}: result shape assumed as declared in specs/world.py")
    v = Val(res, result_ann, own="fresh")
    if result_ann is not None:
        fct = ann_fact(res, result_ann, ctx.ct)
        if fct is not None:
            path.assume(fct)
    yield path, v


def dc_replace(ctx, fr, path, obj, changes, node=None):
    classes = possible_classes(ctx, path, obj)
    if not classes:
        raise Unsupported("dataclasses.replace on object of unknown class")
    cases = [(path, classes[0])]
    if len(classes) > 1:
        cases = []
        cid = V.cls(simp(obj.t))
        for ci in classes:
            if ctx.decide(path, cid == ci.cid) is False:
                continue
            q = path.fork()
            q.pc.append(simp(cid == ci.cid))
            cases.append((q, ci))
    for q, ci in cases:
        o = ctx.alloc_obj(q, ci)
        for n, ann in ci.all_fields().items():
            if n in changes:
                ctx.write_field(q, o, n, ctx.toV(changes[n]))
            else:
                ctx.write_field(q, o, n, ctx.read_field(q, obj, n, ann))
        yield q, o


def exec_with(ctx, fr, path, st):
    """`with <external call> as f:` — the context manager is an external object (a file): the body runs with `f` bound
    to the call's result; exceptional exits and __exit__ effects are not modelled (listed as an assumption)."""
    from .stmt import assign_to, exec_block
    if len(st.items) != 1:
        raise Unsupported(f"with statement with several items at line {st.lineno}")
    item = st.items[0]
    out = []
    for p, v in ev(ctx, fr, path, item.context_expr):
        if not (isinstance(v, Val) and v.own == "fresh" and any("external call" in n for n in p.notes[-3:])):
            raise Unsupported(f"with statement over a value that is not the result of an external call (line {st.lineno})")
        p.note("with-statement over an external context manager: body executed once, __enter__/__exit__ not modelled")
        if item.optional_vars is not None:
            for q in assign_to(ctx, fr, p, item.optional_vars, v):
                out += exec_block(ctx, fr, q, st.body)
        else:
            out += exec_block(ctx, fr, p, st.body)
    return out


# ------------------------------------------------------------------------------------------------ builtins
def isinstance_cond(ctx, path, v, cls):
    """z3 Bool for isinstance(v, cls)."""
    if isinstance(cls, _ClsUnion):
        return simp(z3.Or([isinstance_cond(ctx, path, v, c) for c in cls.items]))
    if isinstance(cls, Val) and ctx.kind(cls) == "VTuple":
        raise Unsupported("isinstance with tuple value")
    if not isinstance(v, Val):
        if isinstance(v, ClassRef) and isinstance(cls, Builtin) and cls.name == "type":
            return z3.BoolVal(True)
        return z3.BoolVal(False)
    t = simp(v.t)
    if isinstance(cls, Builtin):
        n = cls.name
        m = {"str": V.is_VStr(t), "bool": V.is_VBool(t), "int": z3.Or(V.is_VInt(t), V.is_VBool(t)),
             "float": V.is_VFloat(t), "list": V.is_VList(t), "tuple": V.is_VTuple(t),
             "set": z3.And(V.is_VSet(t), z3.Not(V.fz(t))), "frozenset": z3.And(V.is_VSet(t), V.fz(t)), "dict": z3.Or(V.is_VRec(t), V.is_VDict(t)),
             "NoneType": V.is_VNone(t), "type": V.is_VCls(t), "object": z3.BoolVal(True)}
        if n not in m:
            raise Unsupported(f"isinstance(_, {n})")
        return simp(m[n])
    if isinstance(cls, ClassRef):
        ids = [c.cid for c in cls.info.all_subclasses()]
        return simp(z3.And(V.is_VObj(t), z3.Or([V.cls(t) == i for i in ids])))
    if isinstance(cls, SpecConst) and cls.value is None:
        return z3.BoolVal(False)
    raise Unsupported(f"isinstance second argument {type(cls).__name__}")


def hasattr_cond(ctx, path, v, name):
    if not isinstance(v, Val):
        raise Unsupported("hasattr on non-value")
    t = simp(v.t)
    classes = possible_classes(ctx, path, v)
    if classes is None:
        # object of unknown class: uninterpreted predicate of the class id
        f = ctx.func("hasattr_" + name, smt.IntS, smt.BoolS)
        path.note(f"hasattr(x, '{name}') on an object of unknown class: uninterpreted predicate of its class")
        return z3.And(V.is_VObj(t), f(V.cls(t)))
    yes = []
    for ci in classes:
        if ctx.class_has_attr(ci, name):
            yes.append(ci)
    if len(yes) == len(classes):
        return simp(V.is_VObj(t)) if ctx.kind(v) != "VObj" else z3.BoolVal(True)
    if not yes:
        return z3.BoolVal(False)
    return simp(z3.And(V.is_VObj(t), z3.Or([V.cls(t) == c.cid for c in yes])))


def call_builtin_special(ctx, fr, path, name, node):
    from .loops import eval_iterable_to_list, fold_any_all, builtin_sorted, builtin_next
    args = node.args
    if name == "isinstance":
        for p, (v, c) in ev_list(ctx, fr, path, args):
            if isinstance(c, Val) and ctx.kind(c) == "VTuple":
                raise Unsupported("isinstance tuple")
            yield p, ctx.boolval(isinstance_cond(ctx, p, v, c))
        return
    if name == "hasattr":
        for p, (v, n) in ev_list(ctx, fr, path, args):
            nm = smt.str_lit(ctx.as_str(p, n))
            yield p, ctx.boolval(hasattr_cond(ctx, p, v, nm))
        return
    if name == "getattr":
        for p, vals in ev_list(ctx, fr, path, args):
            v, n = vals[0], vals[1]
            nm = smt.str_lit(ctx.as_str(p, n))
            if nm is None:
                # dynamic attribute name: only used for handler method lookup in the walker
                yield from dynamic_getattr(ctx, fr, p, vals, node)
                continue
            if len(vals) == 2:
                yield from get_attr(ctx, fr, p, v, nm, node)
                continue
            dflt = vals[2]
            if not isinstance(v, Val):
                try:
                    yield from get_attr(ctx, fr, p, v, nm, node)
                except Unsupported:
                    yield p, dflt
                continue
            t = simp(v.t)
            if ctx.kind(v) != "VObj" and smt.ctor(t) is not None:
                yield p, dflt
                continue
            c = hasattr_cond(ctx, p, v, nm)
            for q, tv in ctx.branch(p, c, f"getattr.has@{node.lineno}"):
                if tv:
                    vv = Val(v.t, _narrow_ann(ctx, v, nm), own=v.own, deep=v.deep, src=v.src)
                    yield from get_attr(ctx, fr, q, vv, nm, node)
                else:
                    yield q, dflt
        return
    if name in ("any", "all"):
        yield from fold_any_all(ctx, fr, path, name, args[0], node)
        return
    if name == "sorted":
        yield from builtin_sorted(ctx, fr, path, node)
        return
    if name in ("list", "tuple", "set", "frozenset"):
        if not args:
            if name in ("list", "tuple"):
                yield path, Val(V.VList(smt.EMPTY_SEQ) if name == "list" else V.VTuple(smt.EMPTY_SEQ),
                                ("list", None) if name == "list" else ("tuple", []), own="fresh")
            else:
                yield path, ctx.mk_set(path, smt.EMPTY_SET, (name, None), frozen=(name == "frozenset"))
            return
        yield from eval_iterable_to_list(ctx, fr, path, args[0], name, node)
        return
    if name == "next":
        yield from builtin_next(ctx, fr, path, node)
        return
    if name == "dict":
        if not args and not node.keywords:
            yield path, ctx.mk_dict(path, smt.EMPTY_SET, z3.K(V, V.VNone), smt.EMPTY_SEQ)
            return
        if len(args) == 1 and not node.keywords:
            # dict(record): a shallow copy of a constant-key dictionary (records are values: the copy is the same term)
            for p, v in ev(ctx, fr, path, args[0]):
                if isinstance(v, Val) and (ctx.kind(v) == "VRec" or (v.ann is not None and v.ann[0] == "rec")):
                    yield p, Val(v.t, v.ann, own="fresh", deep=False)
                    continue
                raise Unsupported("dict(x) of a value that is not a record")
            return
        raise Unsupported("dict(...) with arguments")
    raise Unsupported(f"builtin {name} in this position (line {node.lineno})")


def _narrow_ann(ctx, v, attr):
    """After hasattr(v, attr) holds, restrict the possible classes."""
    classes = possible_classes(ctx, None, v)
    if not classes:
        return v.ann
    yes = [c for c in classes if ctx.class_has_attr(c, attr)]
    if len(yes) == 1:
        return ("obj", yes[0]) if not yes[0].subclasses else v.ann
    return v.ann


def dynamic_getattr(ctx, fr, path, vals, node):
    raise Unsupported(f"getattr with a computed attribute name (line {node.lineno})")


def call_builtin(ctx, fr, path, name, args, kwargs, node=None):
    if name == "len":
        v = args[0]
        if isinstance(v, _ConstSet):
            raise Unsupported("len of constant set")
        k = ctx.kind(v)
        if k == "VStr":
            yield path, Val(V.VInt(simp(z3.Length(ctx.as_str(path, v)))), ("int",))
        elif k in ("VList", "VTuple"):
            yield path, Val(V.VInt(simp(z3.Length(ctx.as_seq(path, v)))), ("int",))
        elif k == "VSet":
            card = ctx.func("set_card", smt.SetA, smt.IntS)
            arr = ctx.set_arr(path, v)
            c = card(arr)
            path.assume(c >= 0)
            path.assume((c == 0) == (arr == smt.EMPTY_SET), "set cardinality axioms (instantiated)")
            # singleton characterisation
            w = ctx.func("set_witness", smt.SetA, V)
            path.assume(z3.Implies(c >= 1, z3.Select(arr, w(arr))))
            path.assume(z3.Implies(c == 1, arr == z3.Store(smt.EMPTY_SET, w(arr), True)))
            yield path, Val(V.VInt(c), ("int",))
        elif k == "VDict":
            yield path, Val(V.VInt(simp(z3.Length(ctx.dict_parts(path, v)[2]))), ("int",))
        elif k == "VRec":
            yield path, Val(V.VInt(simp(z3.Length(V.rk(v.t)))), ("int",))
        else:
            t = simp(v.t)
            ctx.safety(path, z3.Or(V.is_VStr(t), V.is_VList(t), V.is_VTuple(t)), "len() of a sized value", _where(node))
            yield path, Val(V.VInt(simp(z3.If(V.is_VStr(t), z3.Length(V.s(t)), z3.If(V.is_VList(t), z3.Length(V.l(t)), z3.Length(V.tp(t)))))), ("int",))
        return
    if name == "str":
        if not args:
            yield path, ctx.lift("")
            return
        yield path, Val(V.VStr(to_str_term(ctx, path, ctx.toV(args[0]), node)), ("str",))
        return
    if name == "repr":
        f = ctx.func("py_repr", V, smt.StrS)
        yield path, Val(V.VStr(f(ctx.toV(args[0]).t)), ("str",))
        return
    if name == "bool":
        yield path, ctx.boolval(ctx.truthy(path, args[0]))
        return
    if name == "int":
        v = args[0]
        k = ctx.kind(v)
        if k in ("VInt", "VBool"):
            yield path, Val(V.VInt(ctx.as_int(path, v)), ("int",))
            return
        if k == "VStr":
            # int(str): defined iff the text is an optionally signed decimal; otherwise ValueError
            s = ctx.as_str(path, v)
            digits = z3.Plus(z3.Range("0", "9"))
            ok = z3.InRe(s, z3.Concat(z3.Option(z3.Union(z3.Re("-"), z3.Re("+"))), digits))
            for q, tv in ctx.branch(path, ok, "int(str).ok"):
                if tv:
                    neg = z3.PrefixOf(z3.StringVal("-"), s)
                    body = z3.If(z3.Or(neg, z3.PrefixOf(z3.StringVal("+"), s)), z3.SubString(s, 1, z3.Length(s) - 1), s)
                    n = z3.StrToInt(body)
                    q.note("int(str) for plain ASCII signed decimals only (no whitespace/underscores)")
                    yield q, Val(V.VInt(simp(z3.If(neg, -n, n))), ("int",))
                else:
                    exc = ctx.alloc_obj(q, ctx.ct.by_qual["builtins.ValueError"])
                    ctx.pending_raises.append((q, exc))
            return
        raise Unsupported("int() of unknown kind")
    if name == "float":
        f = ctx.func("py_float", V, smt.IntS)
        path.note("float(x): opaque token, uninterpreted function of x")
        yield path, Val(V.VFloat(f(ctx.toV(args[0]).t)), ("float",))
        return
    if name == "hash":
        v = ctx.toV(args[0])
        yield path, Val(V.VInt(py_hash(ctx, fr, path, v)), ("int",))
        return
    if name == "type":
        v = ctx.toV(args[0])
        t = simp(v.t)
        if ctx.kind(v) == "VObj":
            yield path, Val(V.VCls(simp(V.cls(t))))
            return
        # type of a builtin value: an opaque class token (negative ids never clash with registered classes)
        kinds = ["VNone", "VBool", "VInt", "VStr", "VFloat", "VList", "VTuple", "VRec", "VSet", "VDict"]
        k = ctx.kind(v)
        if k in kinds:
            path.note("type(x) of a builtin value: opaque class token")
            yield path, Val(V.VCls(z3.IntVal(-1 - kinds.index(k))))
            return
        f = ctx.func("type_of_builtin", V, smt.IntS)
        path.note("type(x) of a value of statically unknown kind: class of the object, else an opaque class token")
        yield path, Val(V.VCls(simp(z3.If(V.is_VObj(t), V.cls(t), f(t)))))
        return
    if name == "print":
        yield path, ctx.lift(None)
        return
    if name == "callable":
        yield path, ctx.lift(not isinstance(args[0], Val))
        return
    if name == "abs":
        i = ctx.as_int(path, args[0])
        yield path, Val(V.VInt(simp(z3.If(i < 0, -i, i))), ("int",))
        return
    if name in ("min", "max"):
        if len(args) == 2:
            a, b = ctx.as_int(path, args[0]), ctx.as_int(path, args[1])
            yield path, Val(V.VInt(simp(z3.If((a <= b) if name == "min" else (a >= b), a, b))), ("int",))
            return
    if name == "NoneType":
        yield path, ctx.lift(None)
        return
    raise Unsupported(f"builtin {name}() ({_where(node)})")


def py_hash(ctx, fr, path, v):
    """hash(v) as an Int term. Scalars: uninterpreted function of the value; tuples: function of the element
    hashes; frozensets built from a list: hash_fs(list) (a function of the multiset of elements, see prove.aux);
    objects: their __hash__ (explicit, dataclass-generated, or identity)."""
    path.note("hash(): uninterpreted; equal scalars hash equally; tuple/frozenset hashes are functions of element hashes / multisets")
    k = ctx.kind(v)
    t = simp(v.t)
    if k == "VSet":
        ctx.safety(path, V.fz(t), "hash() of a mutable set (unhashable)")
        sid = simp(V.sid(t))
        if z3.is_int_value(sid) and sid.as_long() in ctx.set_origin:
            return ctx.func("hash_fs", smt.SeqV, smt.IntS)(ctx.set_origin[sid.as_long()])
        return ctx.func("hash_setarr", smt.SetA, smt.IntS)(ctx.set_arr(path, v))
    if k == "VTuple":
        items = smt.unit_items(ctx.as_seq(path, v))
        if items is not None:
            hs = [V.VInt(py_hash(ctx, fr, path, Val(it, None))) for it in items]
            return ctx.func("hash_tuple", smt.SeqV, smt.IntS)(smt.seq_of_list(hs))
    if k == "VObj":
        from .expr import possible_classes
        classes = possible_classes(ctx, path, v)
        if classes and len(classes) == 1:
            ci = classes[0]
            hm = ci.lookup("__hash__")
            if hm is not None:
                outs = list(call_function(ctx, fr, path, hm, [v], {}))
                if len(outs) != 1:
                    raise Unsupported("__hash__ forks")
                return ctx.as_int(outs[0][0], outs[0][1])
            dc = None
            for c in ci.mro():
                if c.dataclass and c.dc_eq:
                    dc = c
                    break
            if dc is not None:
                if not dc.frozen:
                    raise Unsupported("hash of a non-frozen dataclass (unhashable)")
                from .expr import _compare_fields
                hs = []
                for fname in _compare_fields(ci):
                    fv = ctx.read_field(path, v, fname, ci.all_fields().get(fname))
                    hs.append(V.VInt(py_hash(ctx, fr, path, fv)))
                return ctx.func("hash_tuple", smt.SeqV, smt.IntS)(smt.seq_of_list(hs))
            if ci.is_enum or ci.lookup("__eq__") is None:
                return smt.pyhash(t)
    if k == "VList" or k == "VDict" or k == "VRec":
        ctx.safety(path, z3.BoolVal(False), "hash() of an unhashable value (list/dict)")
    return smt.pyhash(t)


# ------------------------------------------------------------------------------------------------ builtin methods
def call_method_builtin(ctx, fr, path, selfv, name, args, kwargs, node=None):
    if isinstance(selfv, SpecConst):
        raise Unsupported("method on python constant")
    k = ctx.kind(selfv)
    if k == "VStr":
        yield from str_method(ctx, fr, path, selfv, name, args, kwargs, node)
    elif k in ("VList", "VTuple"):
        yield from list_method(ctx, fr, path, selfv, name, args, kwargs, node)
    elif k == "VSet":
        yield from set_method(ctx, fr, path, selfv, name, args, kwargs, node)
    elif k in ("VDict", "VRec"):
        yield from dict_method(ctx, fr, path, selfv, name, args, kwargs, node)
    else:
        raise Unsupported(f"method {name} on value of unknown kind ({_where(node)})")


def _strv(t):
    return Val(V.VStr(simp(t)), ("str",))


def str_method(ctx, fr, path, sv, name, args, kwargs, node):
    s = ctx.as_str(path, sv)
    if name == "startswith":
        a = args[0]
        if ctx.kind(a) == "VTuple":
            items = smt.unit_items(ctx.as_seq(path, a))
            yield path, ctx.boolval(z3.Or([z3.PrefixOf(V.s(i), s) for i in items]))
            return
        yield path, ctx.boolval(z3.PrefixOf(ctx.as_str(path, a), s))
        return
    if name == "endswith":
        yield path, ctx.boolval(z3.SuffixOf(ctx.as_str(path, args[0]), s))
        return
    if name in ("lstrip", "rstrip", "strip"):
        if not args:
            raise Unsupported("strip() of whitespace")
        c = ctx.as_str(path, args[0])
        cl = smt.str_lit(c)
        if cl is None or len(cl) == 0:
            # symbolic character set: the result is an uninterpreted function of (string, set) of which only
            # "lstrip gives a suffix / rstrip a prefix / strip a contiguous piece of the receiver" is known (sound, weak)
            f = ctx.func(f"{name}_sym", smt.StrS, smt.StrS, smt.StrS)
            r = f(s, c)
            path.note(f"str.{name}(chars) with a symbolic character set: result only known to be a piece of the receiver")
            if name == "lstrip":
                path.assume(z3.SuffixOf(r, s))
            elif name == "rstrip":
                path.assume(z3.PrefixOf(r, s))
            else:
                path.assume(z3.Contains(s, r))
            yield path, _strv(r)
            return
        cls_re = z3.Union(*[z3.Re(ch) for ch in cl]) if len(cl) > 1 else z3.Re(cl)
        star = z3.Star(cls_re)
        res = s
        note = "str.strip family: result is the unique remainder after removing a maximal prefix/suffix over the char set"
        if name in ("lstrip", "strip"):
            f = ctx.func("lstrip_" + cl.encode().hex(), smt.StrS, smt.StrS)
            r = f(res)
            pre = ctx.func("lstripped_" + cl.encode().hex(), smt.StrS, smt.StrS)(res)
            path.assume(res == z3.Concat(pre, r), note)
            path.assume(z3.InRe(pre, star))
            path.assume(z3.Not(z3.Or([z3.PrefixOf(z3.StringVal(ch), r) for ch in cl])))
            path.assume(z3.Implies(z3.Not(z3.Or([z3.PrefixOf(z3.StringVal(ch), res) for ch in cl])), r == res))
            res = r
        if name in ("rstrip", "strip"):
            f = ctx.func("rstrip_" + cl.encode().hex(), smt.StrS, smt.StrS)
            r = f(res)
            suf = ctx.func("rstripped_" + cl.encode().hex(), smt.StrS, smt.StrS)(res)
            path.assume(res == z3.Concat(r, suf), note)
            path.assume(z3.InRe(suf, star))
            path.assume(z3.Not(z3.Or([z3.SuffixOf(z3.StringVal(ch), r) for ch in cl])))
            path.assume(z3.Implies(z3.Not(z3.Or([z3.SuffixOf(z3.StringVal(ch), res) for ch in cl])), r == res))
            res = r
        yield path, _strv(res)
        return
    if name == "split":
        if not args:
            raise Unsupported("split() on whitespace")
        sep = ctx.as_str(path, args[0])
        if len(args) > 1:
            raise Unsupported("split with maxsplit")
        f = ctx.func("str_split", smt.StrS, smt.StrS, smt.SeqV)
        parts = f(s, sep)
        path.note("str.split(sep): len>=1, parts are strs without sep, join(sep, parts)==s, no sep => [s] (instantiated)")
        path.assume(z3.Length(parts) >= 1)
        path.assume(z3.Implies(z3.Not(z3.Contains(s, sep)), parts == z3.Unit(V.VStr(s))))
        path.assume(z3.Implies(z3.Contains(s, sep), z3.Length(parts) >= 2))
        j = ctx.func("str_join", smt.StrS, smt.SeqV, smt.StrS)
        path.assume(j(sep, parts) == s)
        # first part: the text before the first separator
        p0 = smt.nth(parts, 0)
        path.assume(z3.And(V.is_VStr(p0), z3.PrefixOf(V.s(p0), s), z3.Not(z3.Contains(V.s(p0), sep))))
        path.assume(z3.Implies(z3.Contains(s, sep), z3.PrefixOf(z3.Concat(V.s(p0), sep), s)))
        last = smt.nth(parts, z3.Length(parts) - 1)
        path.assume(z3.And(V.is_VStr(last), z3.SuffixOf(V.s(last), s), z3.Not(z3.Contains(V.s(last), sep))))
        path.assume(z3.Implies(z3.Contains(s, sep), z3.SuffixOf(z3.Concat(sep, V.s(last)), s)))
        ctx.split_terms.append((parts, sep, s))
        yield path, Val(V.VList(parts), ("list", ("str",)), own="fresh")
        return
    if name == "replace":
        a, b = ctx.as_str(path, args[0]), ctx.as_str(path, args[1])
        f = ctx.func("str_replace_all", smt.StrS, smt.StrS, smt.StrS, smt.StrS)
        r = f(s, a, b)
        path.note("str.replace: uninterpreted; identity when the pattern does not occur; '/'<->'.' single-char swaps are length preserving")
        path.assume(z3.Implies(z3.Not(z3.Contains(s, a)), r == s))
        path.assume(z3.Implies(z3.And(z3.Length(a) > 0, z3.Not(z3.Contains(b, a))), z3.Not(z3.Contains(r, a))))
        path.assume(z3.Implies(z3.And(z3.Length(a) == 1, z3.Length(b) == 1), z3.Length(r) == z3.Length(s)))
        yield path, _strv(r)
        return
    if name in ("upper", "lower"):
        f = ctx.func("str_" + name, smt.StrS, smt.StrS)
        r = f(s)
        code = z3.StrToCode(s)
        path.note(f"str.{name}: exact on single ASCII chars; length-preserving on ASCII; never creates '_'")
        if name == "upper":
            path.assume(z3.Implies(z3.And(z3.Length(s) == 1, code >= 97, code <= 122), r == z3.StrFromCode(code - 32)))
            path.assume(z3.Implies(z3.And(z3.Length(s) == 1, code < 128, z3.Not(z3.And(code >= 97, code <= 122))), r == s))
        else:
            path.assume(z3.Implies(z3.And(z3.Length(s) == 1, code >= 65, code <= 90), r == z3.StrFromCode(code + 32)))
            path.assume(z3.Implies(z3.And(z3.Length(s) == 1, code < 128, z3.Not(z3.And(code >= 65, code <= 90))), r == s))
        path.assume(z3.Implies(z3.Not(z3.Contains(s, z3.StringVal("_"))), z3.Not(z3.Contains(r, z3.StringVal("_")))))
        path.assume(z3.Implies(z3.Length(s) == 1, z3.Length(r) >= 1))
        yield path, _strv(r)
        return
    if name == "format":
        raise Unsupported("str.format")
    if name == "__str__":
        yield path, sv
        return
    raise Unsupported(f"str.{name} ({_where(node)})")


def str_join(ctx, fr, path, sepv, arg_node, node):
    for p, xs in ev(ctx, fr, path, arg_node):
        sep = ctx.as_str(p, sepv)
        seq = ctx.as_seq(p, xs)
        items = smt.unit_items(seq)
        if items is not None:
            if not items:
                yield p, ctx.lift("")
                continue
            parts = []
            for i, it in enumerate(items):
                if i:
                    parts.append(sep)
                parts.append(ctx.as_str(p, Val(it), "join element"))
            yield p, _strv(z3.Concat(*parts) if len(parts) > 1 else parts[0])
            continue
        yield p, _strv(join_term(ctx, p, sep, seq))


def join_term(ctx, p, sep, seq):
    from .loops import fold_join
    r = fold_join(ctx, p, sep, seq)
    if r is not None:
        return r
    j = ctx.func("str_join", smt.StrS, smt.SeqV, smt.StrS)
    t = j(sep, seq)
    p.note("str.join over a symbolic list: uninterpreted with unit/empty instances")
    p.assume(z3.Implies(z3.Length(seq) == 0, t == z3.StringVal("")))
    p.assume(z3.Implies(z3.Length(seq) == 1, t == V.s(smt.nth(seq, 0))))
    # join(sep, xs ++ [x]) == join(sep, xs) + sep + x   (x alone when xs is empty)
    sq = simp(seq)
    if z3.is_app(sq) and sq.decl().kind() == z3.Z3_OP_SEQ_CONCAT:
        ch = sq.children()
        last = ch[-1]
        if z3.is_app(last) and last.decl().kind() == z3.Z3_OP_SEQ_UNIT:
            rest = ch[:-1]
            rest_t = rest[0] if len(rest) == 1 else z3.Concat(*rest)
            x = V.s(last.arg(0))
            p.assume(z3.If(z3.Length(rest_t) == 0, t == x, t == z3.Concat(j(sep, rest_t), sep, x)))
    return t


def list_sort(ctx, fr, path, bound, node):
    """xs.sort(key=...) in place."""
    from .loops import sorted_term
    from .stmt import store_lvalue
    recv = node.func.value
    for p, cur in ev(ctx, fr, path, recv):
        key = None
        for kw in node.keywords:
            if kw.arg == "key":
                key = kw.value
            else:
                raise Unsupported("sort(reverse=)")
        for q, seq in sorted_term(ctx, fr, p, ctx.as_seq(p, cur), cur.ann, key, node):
            nv = Val(V.VList(seq), cur.ann, own=cur.own, deep=cur.deep, src=cur.src)
            for r in store_lvalue(ctx, fr, q, recv, nv, mutation=True):
                yield r, ctx.lift(None)


def _mutate_receiver(ctx, fr, path, node, newval):
    """Store the updated container back into the receiver expression of a method call."""
    from .stmt import store_lvalue
    recv = node.func.value
    if isinstance(recv, (ast.Name, ast.Attribute, ast.Subscript)):
        yield from store_lvalue(ctx, fr, path, recv, newval, mutation=True)
    else:
        yield path   # temporary


def list_method(ctx, fr, path, lv, name, args, kwargs, node):
    seq = ctx.as_seq(path, lv)
    ea = ann_elem(lv.ann)
    if name == "append":
        x = ctx.toV(args[0])
        nv = Val(V.VList(simp(z3.Concat(seq, z3.Unit(x.t)))), lv.ann if ea is not None else ("list", x.ann),
                 own=lv.own, deep=lv.deep and not (x.own == "borrow" or (x.own == "fresh" and not x.deep)), src=lv.src)
        nv.root = lv.root
        for p in _mutate_receiver(ctx, fr, path, node, nv):
            yield p, ctx.lift(None)
        return
    if name == "extend":
        x = args[0]
        nv = Val(V.VList(simp(z3.Concat(seq, ctx.as_seq(path, x)))), lv.ann, own=lv.own,
                 deep=lv.deep and x.own != "borrow", src=lv.src)
        for p in _mutate_receiver(ctx, fr, path, node, nv):
            yield p, ctx.lift(None)
        return
    if name == "pop":
        n = z3.Length(seq)
        if args:
            idx = ctx.as_int(path, args[0])
        else:
            idx = z3.IntVal(-1)
        ctx.safety(path, z3.And(idx < n, idx >= -n), "pop index in range", _where(node))
        i = simp(z3.If(idx < 0, n + idx, idx))
        item = Val(smt.nth(seq, i), ea, own=lv.own)
        ns = simp(z3.Concat(z3.Extract(seq, 0, i), z3.Extract(seq, i + 1, n - i - 1)))
        nv = Val(V.VList(ns), lv.ann, own=lv.own, deep=lv.deep, src=lv.src)
        for p in _mutate_receiver(ctx, fr, path, node, nv):
            yield p, item
        return
    if name == "index":
        x = ctx.toV(args[0])
        i = simp(z3.IndexOf(seq, z3.Unit(x.t), 0))
        ctx.safety(path, i >= 0, "list.index: element present", _where(node))
        yield path, Val(V.VInt(i), ("int",))
        return
    if name == "copy":
        yield path, Val(V.VList(seq), lv.ann, own="fresh", deep=lv.own != "borrow")
        return
    if name == "insert":
        idx = ctx.as_int(path, args[0])
        x = ctx.toV(args[1])
        n = z3.Length(seq)
        i = simp(z3.If(idx < 0, z3.If(n + idx < 0, 0, n + idx), z3.If(idx > n, n, idx)))
        ns = simp(z3.Concat(z3.Extract(seq, 0, i), z3.Unit(x.t), z3.Extract(seq, i, n - i)))
        nv = Val(V.VList(ns), lv.ann, own=lv.own, deep=lv.deep and x.own != "borrow", src=lv.src)
        for p in _mutate_receiver(ctx, fr, path, node, nv):
            yield p, ctx.lift(None)
        return
    if name == "count":
        raise Unsupported("list.count")
    raise Unsupported(f"list.{name} ({_where(node)})")


def set_method(ctx, fr, path, sv, name, args, kwargs, node):
    arr = ctx.set_arr(path, sv)
    if name == "add":
        x = ctx.toV(args[0])
        nv = ctx.mk_set(path, z3.Store(arr, x.t, True), sv.ann, own=sv.own)
        nv.src = sv.src
        for p in _mutate_receiver(ctx, fr, path, node, nv):
            yield p, ctx.lift(None)
        return
    if name in ("union", "update"):
        res = arr
        for a in args:
            if isinstance(a, _ConstSet):
                res = z3.SetUnion(res, a.arr)
                continue
            k = ctx.kind(a)
            if k == "VSet":
                res = z3.SetUnion(res, ctx.set_arr(path, a))
            elif k in ("VList", "VTuple"):
                items = smt.unit_items(ctx.as_seq(path, a))
                if items is None:
                    from .loops import seq_to_set_arr
                    res = z3.SetUnion(res, seq_to_set_arr(ctx, path, ctx.as_seq(path, a)))
                else:
                    for it in items:
                        res = z3.Store(res, it, True)
            else:
                raise Unsupported("set.union argument")
        if name == "union":
            yield path, ctx.mk_set(path, res, sv.ann)
            return
        nv = ctx.mk_set(path, res, sv.ann, own=sv.own)
        nv.src = sv.src
        for p in _mutate_receiver(ctx, fr, path, node, nv):
            yield p, ctx.lift(None)
        return
    if name == "pop":
        w = ctx.func("set_witness", smt.SetA, V)
        ctx.safety(path, arr != smt.EMPTY_SET, "set.pop on non-empty set", _where(node))
        x = w(arr)
        path.assume(z3.Implies(arr != smt.EMPTY_SET, z3.Select(arr, x)), "set.pop returns an arbitrary member")
        ea = ann_elem(sv.ann)
        f = ann_fact(x, ea, ctx.ct)
        if f is not None:
            path.assume(f)
        nv = ctx.mk_set(path, z3.Store(arr, x, False), sv.ann, own=sv.own)
        nv.src = sv.src
        for p in _mutate_receiver(ctx, fr, path, node, nv):
            yield p, Val(x, ea)
        return
    if name == "copy":
        yield path, ctx.mk_set(path, arr, sv.ann)
        return
    if name in ("discard", "remove"):
        x = ctx.toV(args[0])
        nv = ctx.mk_set(path, z3.Store(arr, x.t, False), sv.ann, own=sv.own)
        nv.src = sv.src
        for p in _mutate_receiver(ctx, fr, path, node, nv):
            yield p, ctx.lift(None)
        return
    if name == "issubset":
        yield path, ctx.boolval(z3.IsSubset(arr, ctx.set_arr(path, args[0])))
        return
    raise Unsupported(f"set.{name} ({_where(node)})")


def dict_method(ctx, fr, path, dv, name, args, kwargs, node):
    k = ctx.kind(dv)
    if k == "VRec":
        if name == "get":
            key = ctx.toV(args[0])
            dflt = ctx.toV(args[1]) if len(args) > 1 else ctx.lift(None)
            for q, c in py_in(ctx, fr, path, key, dv, node):
                for r, tv in ctx.branch(q, c, "rec.get"):
                    yield r, (rec_lookup(ctx, r, dv, key, node, must=False) if tv else dflt)
            return
        raise Unsupported(f"dict.{name} on record")
    has, get, keys = ctx.dict_parts(path, dv)
    va = dv.ann[2] if dv.ann is not None and dv.ann[0] == "dict" else None
    if name == "get":
        key = ctx.toV(args[0])
        dflt = ctx.toV(args[1]) if len(args) > 1 else ctx.lift(None)
        for r, tv in ctx.branch(path, z3.Select(has, key.t), "dict.get"):
            if tv:
                t = simp(z3.Select(get, key.t))
                v = Val(t, va, own=dv.own, src=("item", dv, key))
                f = ann_fact(t, va, ctx.ct)
                if f is not None:
                    r.assume(f)
                yield r, v
            else:
                yield r, dflt
        return
    if name == "values":
        f = ctx.func("dict_values", smt.IntS, smt.SeqV)
        # values in key order: nth(values, i) == get[nth(keys, i)]
        vals = ctx.func("map_get", MapSort(), smt.SeqV, smt.SeqV)(get, keys)
        path.assume(z3.Length(vals) == z3.Length(keys))
        ctx.mapget_terms.append((vals, get, keys))
        yield path, Val(V.VList(vals), ("list", va), own="fresh", deep=False)
        return
    if name == "keys":
        ka = dv.ann[1] if dv.ann is not None and dv.ann[0] == "dict" else None
        yield path, Val(V.VList(keys), ("list", ka), own="fresh")
        return
    if name == "items":
        raise Unsupported("dict.items outside for header")
    raise Unsupported(f"dict.{name} ({_where(node)})")


def MapSort():
    return smt.MapA
