"""Fork-based parallel map that can be nested (multiprocessing pools are daemonic and cannot have children)."""
from __future__ import annotations

import os
import pickle
import select
import traceback


def pmap(func, items, jobs):
    items = list(items)
    if jobs <= 1 or len(items) <= 1:
        return [func(x) for x in items]
    results = [None] * len(items)
    pending = list(enumerate(items))
    running = {}   # fd -> (pid, idx, buffer)

    def spawn(idx, item):
        r, w = os.pipe()
        pid = os.fork()
        if pid == 0:
            os.close(r)
            try:
                out = ("ok", func(item))
            except BaseException:   # noqa: BLE001
                out = ("err", traceback.format_exc())
            try:
                with os.fdopen(w, "wb") as f:
                    pickle.dump(out, f)
            finally:
                os._exit(0)
        os.close(w)
        running[r] = (pid, idx, bytearray())

    while pending or running:
        while pending and len(running) < jobs:
            idx, item = pending.pop(0)
            spawn(idx, item)
        ready, _, _ = select.select(list(running), [], [], 1.0)
        for fd in ready:
            chunk = os.read(fd, 1 << 16)
            pid, idx, buf = running[fd]
            if chunk:
                buf.extend(chunk)
                continue
            os.close(fd)
            os.waitpid(pid, 0)
            del running[fd]
            try:
                kind, val = pickle.loads(bytes(buf))
            except Exception:   # noqa: BLE001
                kind, val = "err", "worker died without a result"
            if kind == "err":
                raise RuntimeError(val)
            results[idx] = val
    return results
