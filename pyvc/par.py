"""Fork-based parallel map that can be nested (multiprocessing pools are daemonic and cannot have children)."""
from __future__ import annotations

import os
import pickle
import select
import traceback


import signal
import time


def pmap(func, items, jobs, timeout_s=None, on_timeout=None):
    """Parallel map over forked children. With timeout_s, a child that runs longer is killed and its result is
    on_timeout(item) (a stuck native solver call cannot be interrupted from inside the process)."""
    items = list(items)
    if (jobs <= 1 or len(items) <= 1) and timeout_s is None:
        return [func(x) for x in items]
    jobs = max(1, jobs)
    results = [None] * len(items)
    pending = list(enumerate(items))
    running = {}   # fd -> (pid, idx, buffer)
    started = {}

    def spawn(idx, item):
        r, w = os.pipe()
        pid = os.fork()
        if pid == 0:
            os.close(r)
            try:
                out = ("ok", func(item))
            except BaseException:   # noqa: BLE001
                out = ("err", traceback.format_exc())
            try:
                with os.fdopen(w, "wb") as f:
                    pickle.dump(out, f)
            finally:
                os._exit(0)
        os.close(w)
        running[r] = (pid, idx, bytearray())
        started[r] = time.time()

    while pending or running:
        while pending and len(running) < jobs:
            idx, item = pending.pop(0)
            spawn(idx, item)
        if timeout_s is not None:
            now = time.time()
            for fd in list(running):
                if now - started[fd] > timeout_s:
                    pid, idx, buf = running.pop(fd)
                    try:
                        os.kill(pid, signal.SIGKILL)
                    except OSError:
                        pass
                    os.close(fd)
                    os.waitpid(pid, 0)
                    results[idx] = on_timeout(items[idx]) if on_timeout else None
        if not running:
            continue
        ready, _, _ = select.select(list(running), [], [], 1.0)
        for fd in ready:
            chunk = os.read(fd, 1 << 16)
            pid, idx, buf = running[fd]
            if chunk:
                buf.extend(chunk)
                continue
            os.close(fd)
            os.waitpid(pid, 0)
            del running[fd]
            try:
                kind, val = pickle.loads(bytes(buf))
            except Exception:   # noqa: BLE001
                kind, val = "err", "worker died without a result"
            if kind == "err":
                raise RuntimeError(val)
            results[idx] = val
    return results
