"""Native meaning of the sidecar vocabulary (contracts are executable Python as well as VC sources)."""
from __future__ import annotations

CONTRACTS = {}
ALL = []


def contract(target, **kw):
    def deco(cls):
        cls._target = target
        cls._meta = kw
        CONTRACTS.setdefault(target, cls)
        ALL.append((target, cls))
        return cls
    return deco


def clause(**kw):
    def deco(f):
        f._clause = kw
        return staticmethod(f) if False else f
    return deco


def opaque(*a, **kw):
    if a and callable(a[0]) and not kw:
        return a[0]
    return lambda f: f


def implies(a, b):
    return (not a) or bool(b)


def iff(a, b):
    return bool(a) == bool(b)


def ite(c, a, b):
    return a if c else b


def old(x):
    raise RuntimeError("old() is resolved by the replay harness")


def fresh(x):
    return True


def deep_fresh(x):
    return True


def unord(x):
    return False


def lemma(**kw):
    def deco(f):
        f._lemma = kw
        return f
    return deco


def shaped(x, shape):
    """Spec form: x with a declared shape (identity when run natively)."""
    return x
