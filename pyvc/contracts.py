"""Sidecar contracts: registry, verification of a target against its contract, modular use at call sites."""
from __future__ import annotations

import ast
from dataclasses import dataclass, field

import z3

from . import smt
from .expr import Frame, ev, ev_list, mangle, _where
from .smt import V, simp
from .state import Outcome
from .values import (Bound, Builtin, ClassRef, Closure, ExtFunc, FuncRef, ModRef, SpecConst, Unsupported, Val,
                     ann_elem, ann_fact, ann_mutable)


@dataclass
class Clause:
    name: str
    node: ast.FunctionDef
    props: list
    known: list = field(default_factory=list)   # known-finding ids whose region is excluded
    mode: str = "both"            # both | prove (verification only) | use (call sites only)


@dataclass
class Contract:
    target: str
    name: str                     # sidecar class name (short id)
    spec_mod: str
    props: list
    params: dict = field(default_factory=dict)       # name -> annotation text
    requires: list = field(default_factory=list)     # [Clause]
    ensures: list = field(default_factory=list)      # [Clause]
    raises: object = None         # None = unspecified; () = nothing; dict name -> Clause (iff-condition)
    modifies: list = field(default_factory=list)     # access paths
    reads: list = field(default_factory=list)
    unfold: list = field(default_factory=list)       # spec functions to unfold once when verifying the target
    inline: list = field(default_factory=list)       # targets to inline while verifying this one
    verify: bool = True           # False: assumed contract (trusted) — listed in the evidence
    safety: bool = True
    ghost: list = field(default_factory=list)
    setup: ast.FunctionDef | None = None             # def setup(...) : extra symbolic state construction
    regions: dict = field(default_factory=dict)      # known-finding id -> Clause (region predicate)
    self_ann: str | None = None
    abstract_for: list = field(default_factory=list) # other targets this contract also applies to (overrides)
    line: int = 0
    is_lemma: bool = False
    quick_restricted: bool = False
    loop_invariants: dict = field(default_factory=dict)   # while-loop ordinal -> {"shapes": {...}, "inv": "..."}
    returns: str | None = None    # declared result shape: an obligation of the target and the shape callers see
    log: bool = True              # False: calls of this (assumed) callee are not recorded in ghost call logs
    log_calls: list = field(default_factory=list)     # callees (short names) whose calls are recorded in the ghost call log
    prove_in: str = "both"        # "thorough": the deductive part runs in the thorough tier only (bounded part in both)
    def deductive_body_known(self):
        """True when the contract is (or will be) proved against the body: its calls need no logging."""
        return self.verify and self.deductive

    deductive: bool = True        # False: the contract is only checked natively (bounded), its body is not executed symbolically


def const_eval(node, mi):
    """Literal evaluation of contract metadata, with references to module-level constants and '+'."""
    if isinstance(node, ast.Constant):
        return node.value
    if isinstance(node, (ast.List, ast.Tuple, ast.Set)):
        vals = [const_eval(e, mi) for e in node.elts]
        return vals if isinstance(node, ast.List) else (tuple(vals) if isinstance(node, ast.Tuple) else set(vals))
    if isinstance(node, ast.Dict):
        return {const_eval(k, mi): const_eval(v, mi) for k, v in zip(node.keys, node.values)}
    if isinstance(node, ast.BinOp) and isinstance(node.op, ast.Add):
        return const_eval(node.left, mi) + const_eval(node.right, mi)
    if isinstance(node, ast.Name) and node.id in mi.defs and isinstance(mi.defs[node.id], ast.Assign):
        return const_eval(mi.defs[node.id].value, mi)
    if isinstance(node, ast.UnaryOp) and isinstance(node.op, ast.USub):
        return -const_eval(node.operand, mi)
    raise ValueError(f"contract metadata is not a constant: {ast.unparse(node)}")


class Registry:
    def __init__(self, src):
        self.src = src
        self.contracts: dict[str, Contract] = {}
        self.order: list[Contract] = []
        self.extra: list[Contract] = []
        self.spec_mods = []

    def lookup(self, target):
        return self.contracts.get(target)

    def load(self, modname):
        mi = self.src.module(modname)
        self.spec_mods.append(modname)
        for st in mi.tree.body:
            if isinstance(st, ast.FunctionDef):
                for d in st.decorator_list:
                    if isinstance(d, ast.Call) and isinstance(d.func, ast.Name) and d.func.id == "lemma":
                        kw = {k.arg: const_eval(k.value, mi) for k in d.keywords}
                        c = Contract(f"{modname}:{st.name}", st.name, modname, kw.get("props", []), line=st.lineno)
                        c.params = kw.get("params", {})
                        c.inline = kw.get("inline", [])
                        c.modifies = kw.get("modifies", ["*"])
                        c.raises = None if kw.get("may_raise") else ()
                        c.is_lemma = True
                        self.contracts[c.target] = c
                        self.order.append(c)
                continue
            if not isinstance(st, ast.ClassDef):
                continue
            dec = None
            for d in st.decorator_list:
                if isinstance(d, ast.Call) and isinstance(d.func, ast.Name) and d.func.id == "contract":
                    dec = d
            if dec is None:
                continue
            target = const_eval(dec.args[0], mi)
            kw = {k.arg: const_eval(k.value, mi) for k in dec.keywords}
            props = kw.get("props") or ([kw["prop"]] if "prop" in kw else [])
            c = Contract(target, st.name, modname, props, line=st.lineno)
            c.verify = kw.get("verify", True)
            for b in st.body:
                if isinstance(b, ast.Assign) and isinstance(b.targets[0], ast.Name):
                    n = b.targets[0].id
                    val = const_eval(b.value, mi)
                    if n == "params":
                        c.params = val
                    elif n == "modifies":
                        c.modifies = list(val)
                    elif n == "reads":
                        c.reads = list(val)
                    elif n == "raises":
                        c.raises = val if val else ()
                    elif n == "unfold":
                        c.unfold = list(val)
                    elif n == "inline":
                        c.inline = list(val)
                    elif n == "safety":
                        c.safety = bool(val)
                    elif n == "ghost":
                        c.ghost = list(val)
                    elif n == "self_ann":
                        c.self_ann = val
                    elif n == "also":
                        c.abstract_for = list(val)
                    elif n == "deductive":
                        c.deductive = bool(val)
                    elif n == "loop_invariants":
                        c.loop_invariants = dict(val)
                    elif n == "prove_in":
                        c.prove_in = str(val)
                    elif n == "log_calls":
                        c.log_calls = list(val)
                    elif n == "log":
                        c.log = bool(val)
                    elif n == "returns":
                        c.returns = str(val)
                elif isinstance(b, ast.FunctionDef):
                    cprops = props
                    known = []
                    mode = "both"
                    for d in b.decorator_list:
                        if isinstance(d, ast.Call) and isinstance(d.func, ast.Name) and d.func.id == "clause":
                            kk = {k.arg: const_eval(k.value, mi) for k in d.keywords}
                            cprops = kk.get("props", cprops)
                            known = kk.get("known", [])
                            mode = kk.get("mode", "both")
                    if b.name.startswith("requires_quick"):
                        # extra precondition of the quick tier only (the thorough tier proves the full contract)
                        import os as _os
                        # lifted only when the thorough tier is asked for the full contract (PYVC_FULL=1): the part it
                        # excludes is not provable within the budgets today and is covered by the bounded stand-in
                        if not (_os.environ.get("VERIF_TIER", "quick") == "thorough" and _os.environ.get("PYVC_FULL") == "1"):
                            c.requires.append(Clause(b.name, b, cprops, mode="prove"))
                            c.quick_restricted = True
                    elif b.name.startswith("requires"):
                        c.requires.append(Clause(b.name, b, cprops))
                    elif b.name.startswith("ensures"):
                        c.ensures.append(Clause(b.name[len("ensures"):].lstrip("_") or "post", b, cprops, known, mode))
                    elif b.name.startswith("raises_"):
                        if not isinstance(c.raises, dict):
                            c.raises = {}
                        c.raises[b.name[len("raises_"):]] = Clause(b.name, b, cprops, known)
                    elif b.name.startswith("region_"):
                        c.regions[b.name[len("region_"):]] = Clause(b.name, b, cprops)
                    elif b.name == "setup":
                        c.setup = b
            if "EXT" in c.ghost:
                # the call log belongs to one activation: clauses over it are proved for the target, never assumed by callers
                for cl in c.ensures:
                    if cl.mode == "both":
                        cl.mode = "prove"
            if target in self.contracts and not c.deductive:
                self.extra.append(c)          # additional bounded-only contract on an already contracted target
            else:
                self.contracts[target] = c
            for t in c.abstract_for:
                self.contracts.setdefault(t, c)
            self.order.append(c)


class Task:
    """One verification unit: a real function against its sidecar contract."""

    def __init__(self, ctx, contract: Contract, prop: str):
        self.ctx = ctx
        self.contract = contract
        self.target = contract.target
        self.prop = prop
        self.short = contract.target.split(":")[1]
        self.check_safety = contract.safety
        self.check_frame = True
        self.inline_targets = set(contract.inline)
        self.self_val = None
        self.param_vals = {}
        self.suffix = ""

    def may_modify(self, ctx, fr, path, obj: Val, attr):
        mods = self.contract.modifies
        if "*" in mods:
            return True
        if self.self_val is not None and z3.eq(simp(obj.t), simp(self.self_val.t)):
            return any(m == f"self.{attr}" or m == "self.*" for m in mods)
        for pname, pv in self.param_vals.items():
            if isinstance(pv, Val) and z3.eq(simp(obj.t), simp(pv.t)):
                return any(m == f"{pname}.{attr}" or m == f"{pname}.*" for m in mods)
        # objects reachable from modifiable roots: "<root>.**"
        return any(m.endswith(".**") for m in mods) and False

    def may_modify_value(self, ctx, fr, path, cont: Val):
        mods = self.contract.modifies
        if "*" in mods:
            return True
        if cont.root is not None and cont.root.startswith("param:") and cont.root[6:] in mods:
            return True
        src = cont.src
        seen = 0
        while src is not None and seen < 6:
            seen += 1
            if src[0] == "attr":
                _, obj, fieldname = src
                if self.may_modify(ctx, fr, path, obj, fieldname):
                    return True
                src = obj.src
            elif src[0] == "item":
                c = src[1]
                for pname, pv in self.param_vals.items():
                    if isinstance(pv, Val) and isinstance(c, Val) and (pv is c or z3.eq(simp(pv.t), simp(c.t))):
                        if pname in mods or f"{pname}[*]" in mods:
                            return True
                src = c.src if isinstance(c, Val) else None
            else:
                break
        for pname, pv in self.param_vals.items():
            if pv is cont or (isinstance(pv, Val) and z3.eq(simp(pv.t), simp(cont.t))):
                return pname in mods or f"{pname}[*]" in mods
        return False


# ------------------------------------------------------------------------------------------------ symbolic inputs
def make_symbolic(ctx, path, name, ann, mi=None):
    """A symbolic value of the declared shape."""
    if ann is None:
        return Val(ctx.newV(name), None, own="borrow")
    k = ann[0]
    if k == "str":
        return Val(V.VStr(ctx.new(name, smt.StrS)), ann)
    if k == "int":
        return Val(V.VInt(ctx.new(name, smt.IntS)), ann)
    if k == "bool":
        return Val(V.VBool(ctx.new(name, smt.BoolS)), ann)
    if k == "none":
        return Val(V.VNone, ann)
    if k == "float":
        return Val(V.VFloat(ctx.new(name, smt.IntS)), ann)
    if k in ("list", "seq"):
        if k == "seq":
            t = ctx.newV(name)
            path.assume(z3.Or(V.is_VList(t), V.is_VTuple(t)))
            return Val(t, ann, own="borrow")
        return Val(V.VList(ctx.new(name, smt.SeqV)), ann, own="borrow")
    if k == "tuple":
        return Val(V.VTuple(ctx.new(name, smt.SeqV)), ann, own="borrow" if ann_mutable(ann) else "imm")
    if k in ("set", "frozenset"):
        return Val(V.VSet(ctx.new(name + "_sid", smt.IntS), z3.BoolVal(k == "frozenset")), ann, own="borrow" if k == "set" else "imm")
    if k == "dict":
        return Val(V.VDict(ctx.new(name + "_did", smt.IntS)), ann, own="borrow")
    if k == "rec":
        t = ctx.newV(name)
        path.assume(V.is_VRec(t))
        return Val(t, ann, own="borrow")
    if k == "obj":
        ci = ann[1]
        if ci.is_enum:
            v = Val(ctx.newV(name), ann)
            ctx.enum_fact(path, v, ci)
            return v
        return ctx.sym_obj(path, ci, name)
    if k == "union":
        t = ctx.newV(name)
        f = ann_fact(t, ann, ctx.ct)
        if f is not None:
            path.assume(f)
        v = Val(t, ann, own="borrow" if ann_mutable(ann) else "imm")
        for a in ann[1]:
            if a[0] == "obj" and not a[1].is_enum:
                path.assume(z3.Implies(V.is_VObj(t), z3.And(V.oid(t) >= 0, V.oid(t) < 1_000_000)))
        return v
    return Val(ctx.newV(name), None, own="borrow")


def parse_ann_text(ctx, text, *mis):
    node = ast.parse(text, mode="eval").body
    for mi in mis:
        a = ctx.parse_ann(mi, node)
        if a is not None:
            return a
    return None


# ------------------------------------------------------------------------------------------------ clause evaluation
def eval_clause(ctx, spec_mi, clause_node, env, path, old_path=None, result=None, unfold=()):
    """Evaluate a contract function body in spec mode. Yields (path, value)."""
    from .calls import bind_params
    from .source import strip_docstring
    from .stmt import exec_block
    fr = Frame(spec_mi, spec=True)
    fr.old_path = old_path
    fr.result = result
    fr.unfold = {u: 1 for u in unfold}
    names = [a.arg for a in clause_node.args.args]
    saved = path.env
    cenv = {}
    for n in names:
        if n == "result":
            cenv[n] = result
        elif n in env:
            cenv[n] = env[n]
        else:
            raise Unsupported(f"contract clause parameter '{n}' is not a parameter of the target")
    ctx.spec_mode += 1
    mark = len(ctx.pending_raises)
    try:
        path.env = cenv
        outs = exec_block(ctx, fr, path, strip_docstring(clause_node.body))
    finally:
        ctx.spec_mode -= 1
    del ctx.pending_raises[mark:]
    for p, o in outs:
        p.env = saved if p is path else dict(saved)
        if o.kind == "ret":
            yield p, o.value
        elif o.kind == "fall":
            yield p, ctx.lift(None)
        elif o.kind == "raise":
            raise Unsupported(f"contract clause {clause_node.name} raises")


SPEC_FORMS = {"implies", "old", "iff", "fresh", "ite", "unord", "deep_fresh", "same_object", "forall_elems", "len0", "shaped"}


def eval_spec_form(ctx, fr, path, node):
    """Special forms available in contract code."""
    name = node.func.id
    if name == "implies":
        for p, a in ev(ctx, fr, path, node.args[0]):
            for q, tv in ctx.branch(p, ctx.truthy(p, a), "implies"):
                if not tv:
                    yield q, ctx.lift(True)
                else:
                    for r, b in ev(ctx, fr, q, node.args[1]):
                        yield r, ctx.boolval(ctx.truthy(r, b))
        return
    if name == "shaped":
        # shaped(x, "list[pathlib.Path]"): x read with a declared shape (values taken out of a call log carry none);
        # the shape is assumed, as for any declared shape of an external result
        text = node.args[1].value
        spec_mi = ctx.src.module(ctx.current.contract.spec_mod) if ctx.current is not None else fr.mi
        ann = parse_ann_text(ctx, text, spec_mi, fr.mi)
        for p, v in ev(ctx, fr, path, node.args[0]):
            v = ctx.toV(v)
            f = ann_fact(v.t, ann, ctx.ct)
            if f is not None:
                p.assume(f, f"declared shape in spec: {text}")
            yield p, Val(v.t, ann, own=v.own, deep=v.deep)
        return
    if name == "iff":
        for p, (a, b) in ev_list(ctx, fr, path, node.args):
            yield p, ctx.boolval(ctx.truthy(p, a) == ctx.truthy(p, b))
        return
    if name == "ite":
        for p, c in ev(ctx, fr, path, node.args[0]):
            for q, tv in ctx.branch(p, ctx.truthy(p, c), "ite"):
                yield from ev(ctx, fr, q, node.args[1] if tv else node.args[2])
        return
    if name == "old":
        if fr.old_path is None:
            raise Unsupported("old() outside a postcondition")
        op = fr.old_path.fork()
        nf = len(op.facts)
        # evaluate in the pre-state; parameters are visible by name
        op.env = dict(path.env)
        outs = list(ev(ctx, fr, op, node.args[0]))
        if len(outs) != 1:
            raise Unsupported("old(...) expression forks")
        q, v = outs[0]
        for f in q.facts[nf:]:
            path.assume(f)
        for k, arr in q.sets.items():
            path.sets.setdefault(k, arr)
        for k, d in q.dicts.items():
            path.dicts.setdefault(k, d)
        yield path, v
        return
    if name in ("fresh", "deep_fresh"):
        for p, v in ev(ctx, fr, path, node.args[0]):
            ok = isinstance(v, Val) and (v.own == "imm" or (v.own == "fresh" and v.deep))
            yield p, ctx.lift(bool(ok))
        return
    if name == "unord":
        for p, v in ev(ctx, fr, path, node.args[0]):
            yield p, ctx.lift(bool(isinstance(v, Val) and v.unord))
        return
    if name == "same_object":
        for p, (a, b) in ev_list(ctx, fr, path, node.args):
            yield p, ctx.boolval(a.t == b.t)
        return
    raise Unsupported(f"spec form {name}")


# ------------------------------------------------------------------------------------------------ spec functions
def call_spec(ctx, fr, path, f: FuncRef, args, kwargs, node=None):
    """A function defined in a sidecar module. Opaque (recursive) spec functions are uninterpreted unless an
    unfolding was requested for this evaluation."""
    from .calls import bind_params, run_body
    opaque = any(isinstance(d, ast.Name) and d.id == "opaque" or
                 (isinstance(d, ast.Call) and isinstance(d.func, ast.Name) and d.func.id == "opaque")
                 for d in f.node.decorator_list)
    name = f.node.name
    if opaque:
        budget = getattr(fr, "unfold", {}) if fr is not None else {}
        if budget.get(name, 0) > 0 and f.target not in ctx.call_stack:
            pass  # unfold below
        else:
            vs = [ctx.toV(a) for a in args] + [ctx.toV(v) for _, v in sorted(kwargs.items())]
            # declared left inverse: F(G(x)) rewrites to x
            for d in f.node.decorator_list:
                if isinstance(d, ast.Call):
                    for kw in d.keywords:
                        if kw.arg == "inverse_of" and len(vs) == 1:
                            t0 = simp(vs[0].t)
                            if z3.is_app(t0) and t0.decl().name() == "SPEC_" + kw.value.value and t0.num_args() == 1:
                                rann = None
                                for kw2 in d.keywords:
                                    if kw2.arg == "ann":
                                        rann = parse_ann_text(ctx, kw2.value.value, f.mi)
                                yield path, Val(t0.arg(0), rann, own="borrow")
                                return
            ret = "V"
            for d in f.node.decorator_list:
                if isinstance(d, ast.Call):
                    for kw in d.keywords:
                        if kw.arg == "returns":
                            ret = kw.value.value
            sort = {"V": V, "str": smt.StrS, "bool": smt.BoolS, "int": smt.IntS}[ret]
            fn = ctx.func("SPEC_" + name, *([V] * len(vs)), sort)
            t = fn(*[v.t for v in vs])
            if ret == "str":
                yield path, Val(V.VStr(t), ("str",))
            elif ret == "bool":
                yield path, Val(V.VBool(t), ("bool",))
            elif ret == "int":
                yield path, Val(V.VInt(t), ("int",))
            else:
                rann = None
                for d in f.node.decorator_list:
                    if isinstance(d, ast.Call):
                        for kw in d.keywords:
                            if kw.arg == "ann":
                                rann = parse_ann_text(ctx, kw.value.value, f.mi)
                fct = ann_fact(t, rann, ctx.ct)
                if fct is not None:
                    path.assume(fct)
                rv = Val(t, rann, own="fresh")
                # declared postcondition of the spec function (itself proved by a lemma in the sidecar)
                for d in f.node.decorator_list:
                    if isinstance(d, ast.Call):
                        for kw in d.keywords:
                            if kw.arg == "post":
                                pf = ctx.global_lookup(f.mi, kw.value.value, path)
                                base = path.fork()
                                npc, nf = len(base.pc), len(base.facts)
                                ctx.spec_mode += 1
                                try:
                                    outs = list(call_spec(ctx, Frame(f.mi, spec=True), base, pf, vs + [rv], {}, node))
                                finally:
                                    ctx.spec_mode -= 1
                                alts = []
                                for q, v in outs:
                                    alts.append(z3.And(*(q.pc[npc:] + q.facts[nf:] + [ctx.truthy(q, v)])))
                                path.assume(z3.Or(alts) if alts else z3.BoolVal(False), f"post of spec function {name}")
                yield path, rv
            return
    env = bind_params(ctx, fr, path, f.node, args, kwargs, f.mi, None)
    ctx.spec_mode += 1
    try:
        extra = {"old_path": fr.old_path, "result": fr.result}
        ub = dict(getattr(fr, "unfold", {}))
        if opaque:
            ub[name] = ub.get(name, 0) - 1
        extra["unfold"] = ub
        outs = list(run_body(ctx, path, f, env, node, spec=True, frame_extra=extra))
    finally:
        ctx.spec_mode -= 1
    yield from outs


def generator_next(ctx, fr, path, it, node):
    """next(gen) for the one generator of the repo (result_name_generator), through its ghost counter."""
    if isinstance(it, Val) and it.ann == ("gen", "result_name"):
        cnt = path.ghost.get(("gen", simp(it.t).sexpr()))
        n = ctx.as_int(path, cnt) if cnt is not None else z3.IntVal(0)
        ctx.safety(path, n < 999, "result_name_generator below 999 names (then it restarts)", _where(node))
        name = z3.Concat(z3.StringVal("result_"), z3.IntToStr(n + 1))
        path.ghost[("gen", simp(it.t).sexpr())] = Val(V.VInt(simp(n + 1)), ("int",))
        yield path, Val(V.VStr(simp(name)), ("str",))
        return
    raise Unsupported("next() on an unknown iterator")


# ------------------------------------------------------------------------------------------------ modular use
def _single_return_eq(clause_node):
    """ensures body `return LHS == RHS` -> (LHS node, RHS node) else None."""
    from .source import strip_docstring
    body = strip_docstring(clause_node.body)
    if len(body) == 1 and isinstance(body[0], ast.Return) and isinstance(body[0].value, ast.Compare):
        c = body[0].value
        if len(c.ops) == 1 and isinstance(c.ops[0], ast.Eq):
            return c.left, c.comparators[0]
    return None


def apply_contract_at_call(ctx, fr, path, f: FuncRef, contract: Contract, env, node=None):
    spec_mi = ctx.src.module(contract.spec_mod)
    where = _where(node)
    # 1. preconditions are obligations of the caller
    for cl in contract.requires:
        if cl.mode == "prove":
            continue
        for p, v in eval_clause(ctx, spec_mi, cl.node, env, path.fork()):
            if not ctx.spec_mode:
                ctx.oblige(p, ctx.truthy(p, v), "requires", f"call:{contract.name}.{cl.name}", where)
    # declared parameter shapes are preconditions as well
    for pname, atext in contract.params.items():
        if pname in env and isinstance(env[pname], Val):
            ann = parse_ann_text(ctx, atext, f.mi, spec_mi)
            fct = ann_fact(env[pname].t, ann, ctx.ct)
            if fct is not None and not ctx.spec_mode:
                g = simp(fct)
                if not z3.is_true(g):
                    ctx.oblige(path, g, "requires", f"call:{contract.name}.shape({pname})", where)
    if contract.raises is None or contract.raises:
        # the callee may raise: not modelled beyond "it returns" — callers that need exception freedom must
        # call targets with raises=() contracts
        path.note(f"call of {contract.target}: exceptional exits are not propagated to the caller")
    old_path = path.fork()
    selfv = env.get("self")
    # 2. havoc the frame
    for m in contract.modifies:
        parts = m.split(".")
        if parts[0] in env and len(parts) == 2 and isinstance(env[parts[0]], Val):
            root = env[parts[0]]
            cls = f.cls if parts[0] == "self" else None
            attr = parts[1]
            if attr.startswith("__") and not attr.endswith("__") and cls is not None:
                attr = f"_{cls.name.lstrip('_')}{attr}"
            ann = None
            if cls is not None:
                ann = cls.all_fields().get(parts[1])
            nv = make_symbolic(ctx, path, "hv_" + attr, ann)
            nv.own = "borrow"
            ctx.write_field(path, root, attr, nv)
        elif m in env:
            pass   # argument containers: consumed by the callee; the caller must not rely on them afterwards
        elif m == "*":
            raise Unsupported("contract with modifies * used at a call site")
    # 3. result and postconditions
    result = None
    pending = []
    for cl in contract.ensures:
        if cl.mode in ("prove", "bounded"):     # bounded clauses are never proved, hence never assumed
            continue
        eqn = _single_return_eq(cl.node)
        if eqn is not None and isinstance(eqn[0], ast.Name) and eqn[0].id == "result" and result is None:
            pending.append(("result", cl, eqn[1]))
        elif eqn is not None and isinstance(eqn[0], ast.Attribute) and isinstance(eqn[0].value, ast.Name) and \
                f"{eqn[0].value.id}.{eqn[0].attr}" in contract.modifies:
            pending.append(("field", cl, eqn))
        else:
            pending.append(("assume", cl, None))
    pending.sort(key=lambda x: {"result": 0, "field": 1, "assume": 2}[x[0]])
    paths = [(path, None)]
    for kind, cl, extra in pending:
        nxt = []
        for p, res in paths:
            if kind == "result" and res is None:
                frx = Frame(spec_mi, spec=True)
                frx.old_path = old_path
                saved = p.env
                p.env = dict(env)
                ctx.spec_mode += 1
                try:
                    outs = list(ev(ctx, frx, p, extra))
                finally:
                    ctx.spec_mode -= 1
                for q, v in outs:
                    q.env = saved if q is p else dict(saved)
                    nxt.append((q, ctx.toV(v)))
            elif kind == "field":
                lhs, rhs = extra
                frx = Frame(spec_mi, spec=True)
                frx.old_path = old_path
                frx.result = res
                saved = p.env
                p.env = dict(env)
                if res is not None:
                    p.env["result"] = res
                ctx.spec_mode += 1
                try:
                    outs = list(ev(ctx, frx, p, rhs))
                finally:
                    ctx.spec_mode -= 1
                for q, v in outs:
                    q.env = saved if q is p else dict(saved)
                    root = env[lhs.value.id]
                    attr = lhs.attr
                    if attr.startswith("__") and not attr.endswith("__") and f.cls is not None:
                        attr = f"_{f.cls.name.lstrip('_')}{attr}"
                    ctx.write_field(q, root, attr, ctx.toV(v))
                    nxt.append((q, res))
            else:
                if res is None and "result" in [a.arg for a in cl.node.args.args]:
                    res = _fresh_result(ctx, p, f, contract, env)
                for q, v in eval_clause(ctx, spec_mi, cl.node, env, p, old_path, res):
                    q.assume(ctx.truthy(q, v), f"contract of {contract.target}")
                    nxt.append((q, res))
        paths = nxt
    for p, res in paths:
        if res is None:
            res = _fresh_result(ctx, p, f, contract, env)
        p.note(f"callee contract {contract.target}" + ("" if contract.verify else " (ASSUMED, not verified)"))
        forced = ctx.current is not None and contract.target.split(":")[1] in getattr(ctx.current.contract, "log_calls", [])
        if "EXT" in p.ghost and not ctx.spec_mode and contract.log and (forced or not contract.deductive_body_known()):
            # calls that are only known through an assumed / bounded contract are recorded in the activation's call log
            # like external calls: (target, arguments in signature order, result)
            names = [a.arg for a in f.node.args.posonlyargs + f.node.args.args + f.node.args.kwonlyargs]
            vals = [ctx.toV(env[n]).t for n in names if n in env and isinstance(env[n], (Val, ClassRef))]
            rec = V.VTuple(smt.seq_of_list([V.VStr(z3.StringVal(contract.target.split(":")[1]))] + vals + [res.t]))
            log = p.ghost["EXT"]
            p.ghost["EXT"] = Val(V.VList(simp(z3.Concat(ctx.as_seq(p, log), z3.Unit(rec)))), ("list", None))
        yield p, res


def _fresh_result(ctx, path, f, contract, env):
    vs = []
    for n in [a.arg for a in f.node.args.posonlyargs + f.node.args.args + f.node.args.kwonlyargs]:
        v = env.get(n)
        if isinstance(v, Val):
            vs.append(v.t)
    selfv = env.get("self")
    if isinstance(selfv, Val):
        for m in contract.modifies + contract.reads:
            parts = m.split(".")
            if parts[0] == "self" and len(parts) == 2:
                vs.append(ctx._select(path, parts[1], V.oid(selfv.t)))
    fn = ctx.func(f"RES_{contract.target}", *([V] * len(vs)), V)
    t = fn(*vs) if vs else z3.Const(f"RES_{contract.target}", V)
    ann = None
    if contract.returns:
        spec_mi = ctx.src.module(contract.spec_mod)
        ann = parse_ann_text(ctx, contract.returns, spec_mi, f.mi)
        fct = ann_fact(t, ann, ctx.ct) if ann is not None else None
        if fct is not None:
            path.assume(fct, f"declared result shape of {contract.target} (an obligation of its own verification)")
        return Val(t, ann, own="fresh")
    if not contract.verify and f.node.returns is not None:
        # assumed contract: the declared return annotation is part of the assumption
        ann = ctx.parse_ann(f.mi, f.node.returns)
        fct = ann_fact(t, ann, ctx.ct) if ann is not None else None
        if fct is not None:
            path.assume(fct, f"declared return shape of the assumed contract {contract.target}")
    return Val(t, ann, own="fresh")


# ------------------------------------------------------------------------------------------------ verification of a target
def verify_contract(ctx, contract: Contract, prop: str):
    """Generate all obligations of `contract.target` against its contract. Returns number of paths."""
    from .calls import run_body
    from .source import strip_docstring
    from .stmt import exec_block
    mi, cls_node, fnode = ctx.src.find_function(contract.target)
    spec_mi = ctx.src.module(contract.spec_mod)
    task = Task(ctx, contract, prop)
    ctx.current = task
    ci = ctx.ct.from_ast(mi, cls_node, ctx.parse_ann) if cls_node is not None else None
    kind = "function"
    for d in fnode.decorator_list:
        dn = ast.unparse(d)
        if dn in ("staticmethod", "classmethod", "property"):
            kind = dn
    f = FuncRef(mi, ci, fnode, kind if ci is not None and kind != "function" else ("method" if ci is not None else "function"))
    path = ctx.new_path()
    env = {}
    params = [a.arg for a in fnode.args.posonlyargs + fnode.args.args + fnode.args.kwonlyargs]
    for i, pn in enumerate(params):
        if i == 0 and ci is not None and f.kind in ("method", "property"):
            if contract.self_ann:
                sv = make_symbolic(ctx, path, "self", parse_ann_text(ctx, contract.self_ann, mi, spec_mi))
            else:
                sv = ctx.sym_obj(path, ci, "self", exact=not ci.subclasses)
            env[pn] = sv
            task.self_val = sv
            continue
        if i == 0 and ci is not None and f.kind == "classmethod":
            env[pn] = ClassRef(ci)
            continue
        atext = contract.params.get(pn)
        ann = parse_ann_text(ctx, atext, mi, spec_mi) if atext else None
        if atext and ann is None and atext not in ("Any", "object"):
            raise Unsupported(f"cannot parse parameter shape {pn}: {atext}")
        env[pn] = make_symbolic(ctx, path, pn, ann)
        env[pn].root = f"param:{pn}"
    task.param_vals = {k: v for k, v in env.items() if k != "self"}
    # ghost state
    for g in contract.ghost:
        if g == "EXT":
            path.ghost[g] = Val(V.VList(smt.EMPTY_SEQ), ("list", None))     # log of this activation's external calls
        else:
            path.ghost[g] = Val(V.VList(ctx.new("ghost_" + g, smt.SeqV)), ("list", None))
    # setup hook (extra assumptions about the symbolic pre-state, in spec code)
    if contract.setup is not None:
        outs = list(eval_clause(ctx, spec_mi, contract.setup, env, path))
        if len(outs) != 1:
            raise Unsupported("setup forks")
        path = outs[0][0]
    # preconditions
    pre_paths = [path]
    for cl in contract.requires:
        nxt = []
        for p in pre_paths:
            for q, v in eval_clause(ctx, spec_mi, cl.node, env, p):
                c = simp(ctx.truthy(q, v))
                if z3.is_false(c):
                    continue
                q.pc.append(c) if not z3.is_true(c) else None
                nxt.append(q)
        pre_paths = nxt
    # ---- phase A: execute the body on every precondition path
    work = []          # (old_path, outcome path, Outcome)
    for p0 in pre_paths:
        if not ctx.feasible(p0):
            continue
        # vacuity guard: the precondition must be satisfiable (cover obligation)
        cov = ctx.oblige(p0, z3.BoolVal(False), "cover", "cover:requires")
        cov.expect_sat = True
        old_path = p0.fork()
        body_path = p0.fork()
        task.entry_path = old_path          # `old(...)` inside loop invariants
        task.func = f
        # a call log is compared record by record: keep the arms of an `if` as separate paths (concrete logs)
        saved_nm = getattr(ctx, "no_merge", False)
        ctx.no_merge = saved_nm or ("EXT" in contract.ghost)
        try:
            for q, o in run_body_outcomes(ctx, body_path, f, env):
                work.append((old_path, q, o))
        finally:
            ctx.no_merge = saved_nm
    ctx.current = None

    # ---- phase B: the postcondition obligations of one outcome path (independent of the others)
    def check_outcome(i):
        old_path, q, o = work[i]
        ctx.current = task
        task.suffix = f"p{i}"
        try:
            if o.kind == "raise":
                check_raise(ctx, spec_mi, contract, env, q, old_path, o.value)
                return
            res = o.value if o.kind == "ret" else ctx.lift(None)
            res = ctx.toV(res) if not isinstance(res, Val) else res
            if contract.returns:
                rann = parse_ann_text(ctx, contract.returns, spec_mi, mi)
                rf = ann_fact(res.t, rann, ctx.ct) if rann is not None else None
                if rf is not None:
                    ctx.oblige(q, rf, "ensures", "returns-shape")
            # raises-iff: returning normally means no declared raise condition held
            if isinstance(contract.raises, dict):
                for ename, cl in contract.raises.items():
                    for r, v in eval_clause(ctx, spec_mi, cl.node, env, old_path.fork()):
                        r2 = q.fork()
                        for fct in r.facts[len(old_path.facts):]:
                            r2.assume(fct)
                        extra = r.pc[len(old_path.pc):]
                        ob = ctx.oblige(r2, z3.Not(ctx.truthy(r, v)), "ensures", f"raises_{ename}.returns_only_if_not", extra_hyps=extra)
                        ob.props = cl.props
            for cl in contract.ensures:
                if cl.mode in ("use", "bounded"):
                    continue
                for r, v in eval_clause(ctx, spec_mi, cl.node, env, q.fork(), old_path, res, contract.unfold):
                    ob = ctx.oblige(r, ctx.truthy(r, v), "ensures", cl.name)
                    ob.props = cl.props
                    ob.known = cl.known
        finally:
            ctx.current = None
            task.suffix = ""
    return len(work), check_outcome


def run_body_outcomes(ctx, path, f, env):
    from .source import strip_docstring
    from .stmt import exec_block
    path.env = dict(env)
    fr = Frame(f.mi, func=f, cls=f.cls)
    ctx.call_stack.append(f.target)
    try:
        outs = exec_block(ctx, fr, path, strip_docstring(f.node.body))
    finally:
        ctx.call_stack.pop()
    res = []
    for p, o in outs:
        if o.kind == "fall":
            o = Outcome("ret", ctx.lift(None))
        res.append((p, o))
    return res


def check_raise(ctx, spec_mi, contract, env, q, old_path, exc):
    """A path that ends in `raise`: allowed only as the contract says."""
    if contract.raises is None:
        return
    if contract.raises == () or not contract.raises:
        ob = ctx.oblige(q, z3.BoolVal(False), "safety", "no-raise")
        return
    alts = []
    for ename, cl in contract.raises.items():
        ci = ctx.ct.by_qual.get("builtins." + ename)
        if ci is None:
            continue
        is_cls = z3.Or([V.cls(exc.t) == c.cid for c in ci.all_subclasses()])
        for r, v in eval_clause(ctx, spec_mi, cl.node, env, old_path.fork()):
            r2 = q.fork()
            for fct in r.facts[len(old_path.facts):]:
                r2.assume(fct)
            extra = r.pc[len(old_path.pc):]
            ctx.oblige(r2, z3.And(is_cls, ctx.truthy(r, v)), "ensures", f"raises_{ename}.only_if", extra_hyps=extra)
