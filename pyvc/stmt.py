"""Statement execution: returns a list of (path, Outcome)."""
from __future__ import annotations

import ast

import z3

from . import smt
from .expr import Frame, compare, ev, ev_list, get_attr, mangle, py_eq, rec_store, subscript, _where
from .smt import V, simp
from .state import Outcome
from .values import Bound, Builtin, ClassRef, Closure, FuncRef, ModRef, Unsupported, Val, ann_mutable

MAX_PATHS = 4000
import os as _os, time as _time
_TRACE = bool(_os.environ.get("PYVC_TRACE"))
_T0 = _time.time()


def exec_block(ctx, fr, path, stmts):
    """Execute statements sequentially on one path; returns [(path, Outcome)]."""
    work = [(path, 0)]
    done = []
    while work:
        p, i = work.pop()
        if i >= len(stmts):
            done.append((p, Outcome("fall")))
            continue
        for q, o in exec_stmt(ctx, fr, p, stmts[i]):
            if o.kind == "fall":
                work.append((q, i + 1))
            else:
                done.append((q, o))
        if len(done) + len(work) > MAX_PATHS:
            raise Unsupported(f"path explosion (> {MAX_PATHS}) in {fr.func.qualname if fr.func else '?'}")
    return done


def exec_stmt(ctx, fr, path, st):
    h = _STMTS.get(type(st))
    if h is None:
        raise Unsupported(f"statement {type(st).__name__} at line {st.lineno}")
    mark = len(ctx.pending_raises)
    if _TRACE:
        import sys, time
        print(f"[{time.time() - _T0:7.1f}] {'  ' * len(ctx.call_stack)}{type(st).__name__}@{getattr(st, 'lineno', '?')} pc={len(path.pc)} facts={len(path.facts)} spec={ctx.spec_mode}", file=sys.stderr)
    outs = h(ctx, fr, path, st)
    # paths on which a call inside this statement raised are not continued by the expression layer
    if len(ctx.pending_raises) > mark:
        raised = ctx.pending_raises[mark:]
        del ctx.pending_raises[mark:]
        outs = list(outs) + [(p, Outcome("raise", e)) for p, e in raised]
    return outs


def s_Expr(ctx, fr, path, st):
    if isinstance(st.value, ast.Constant):
        return [(path, Outcome("fall"))]
    return [(p, Outcome("fall")) for p, _ in ev(ctx, fr, path, st.value)]


def s_Pass(ctx, fr, path, st):
    return [(path, Outcome("fall"))]


def s_Return(ctx, fr, path, st):
    if st.value is None:
        return [(path, Outcome("ret", ctx.lift(None)))]
    return [(p, Outcome("ret", v)) for p, v in ev(ctx, fr, path, st.value)]


def s_Raise(ctx, fr, path, st):
    if st.exc is None:
        return [(path, Outcome("raise", path.env.get("#exc")))]
    out = []
    for p, v in ev(ctx, fr, path, st.exc):
        if isinstance(v, ClassRef):
            v = ctx.alloc_obj(p, v.info)
        out.append((p, Outcome("raise", v)))
    return out


def s_Break(ctx, fr, path, st):
    return [(path, Outcome("break"))]


def s_Continue(ctx, fr, path, st):
    return [(path, Outcome("continue"))]


def s_Assign(ctx, fr, path, st):
    out = []
    for p, v in ev(ctx, fr, path, st.value):
        paths = [p]
        for tgt in st.targets:
            nxt = []
            for q in paths:
                nxt += list(assign_to(ctx, fr, q, tgt, v))
            paths = nxt
        out += [(q, Outcome("fall")) for q in paths]
    return out


def s_AnnAssign(ctx, fr, path, st):
    if st.value is None:
        return [(path, Outcome("fall"))]
    out = []
    for p, v in ev(ctx, fr, path, st.value):
        out += [(q, Outcome("fall")) for q in assign_to(ctx, fr, p, st.target, v)]
    return out


def s_AugAssign(ctx, fr, path, st):
    from .expr import binop
    out = []
    load = _as_load(st.target)
    for p, cur in ev(ctx, fr, path, load):
        for q, rhs in ev(ctx, fr, p, st.value):
            if isinstance(st.op, ast.Add) and isinstance(cur, Val) and ctx.kind(cur) == "VList":
                # list += iterable : in-place extend
                seq = simp(z3.Concat(ctx.as_seq(q, cur), ctx.as_seq(q, rhs)))
                nv = Val(V.VList(seq), cur.ann, own=cur.own, deep=cur.deep and rhs.own != "borrow", src=cur.src)
                out += [(r, Outcome("fall")) for r in store_lvalue(ctx, fr, q, st.target, nv, mutation=True)]
                continue
            for r, nv in binop(ctx, fr, q, st.op, cur, rhs, st):
                out += [(r2, Outcome("fall")) for r2 in assign_to(ctx, fr, r, st.target, nv)]
    return out


def _as_load(node):
    import copy
    n = copy.copy(node)
    n.ctx = ast.Load()
    return n


def assign_to(ctx, fr, path, tgt, v):
    """Bind v to target; yields paths."""
    if isinstance(tgt, ast.Name):
        path.env[tgt.id] = v
        yield path
        return
    if isinstance(tgt, (ast.Tuple, ast.List)):
        if not isinstance(v, Val):
            raise Unsupported("unpacking non-value")
        seq = ctx.as_seq(path, v)
        n = len(tgt.elts)
        ctx.safety(path, z3.Length(seq) == n, "unpacking length", _where(tgt))
        items = smt.unit_items(seq)
        paths = [path]
        for i, e in enumerate(tgt.elts):
            ea = None
            if v.ann is not None and v.ann[0] == "tuple" and v.ann[1] and i < len(v.ann[1]):
                ea = v.ann[1][i]
            elif v.ann is not None and v.ann[0] in ("list", "seq"):
                ea = v.ann[1]
            el = Val(simp(items[i]) if items is not None and len(items) == n else smt.nth(seq, i), ea,
                     own="imm" if not ann_mutable(ea) else v.own, deep=v.deep)
            from .values import ann_fact
            f = ann_fact(el.t, ea, ctx.ct)
            nxt = []
            for q in paths:
                if f is not None:
                    q.assume(f)
                nxt += list(assign_to(ctx, fr, q, e, el))
            paths = nxt
        yield from paths
        return
    yield from store_lvalue(ctx, fr, path, tgt, v, mutation=False)


def lvalue_root(ctx, fr, path, node):
    """Describe where an lvalue chain is rooted: ('local', name) | ('self', field) | ('param', name) | ('other',)"""
    chain = []
    n = node
    while isinstance(n, (ast.Attribute, ast.Subscript)):
        chain.append(n)
        n = n.value
    if isinstance(n, ast.Name):
        first = chain[-1] if chain else None
        if n.id == "self" and isinstance(first, ast.Attribute):
            return ("self", mangle(fr, first.attr))
        return ("name", n.id)
    return ("other",)


def frame_violation(ctx, fr, path, what, node):
    """A write outside the declared frame: an obligation that only an infeasible path can discharge."""
    if ctx.spec_mode or ctx.current is None or not ctx.current.check_frame:
        return
    ctx.oblige(path, z3.BoolVal(False), "frame", f"frame:{what}", _where(node))


def store_lvalue(ctx, fr, path, node, val, mutation):
    """Assign val to the lvalue `node` (Attribute / Subscript / Name). For Subscript the container is
    functionally updated and stored back to *its* lvalue. Yields paths."""
    if isinstance(node, ast.Name):
        old = path.env.get(node.id)
        path.env[node.id] = val
        if mutation and isinstance(old, Val):
            yield from write_through(ctx, fr, path, old, val, node)
        else:
            yield path
        return
    if isinstance(node, ast.Attribute):
        for p, o in ev(ctx, fr, path, node.value):
            if not isinstance(o, Val):
                raise Unsupported("attribute store on non-value")
            attr = mangle(fr, node.attr)
            check_obj_write(ctx, fr, p, o, attr, node)
            ctx.write_field(p, o, attr, ctx.toV(val))
            yield p
        return
    if isinstance(node, ast.Subscript):
        for p, cont in ev(ctx, fr, path, node.value):
            for q, key in ev(ctx, fr, p, node.slice):
                newc = set_item(ctx, fr, q, cont, ctx.toV(key), ctx.toV(val), node)
                yield from store_lvalue(ctx, fr, q, node.value, newc, mutation=True)
        return
    raise Unsupported(f"assignment target {type(node).__name__}")


def check_obj_write(ctx, fr, path, o, attr, node):
    """Attribute store: allowed on objects allocated in this activation, on self fields listed in
    `modifies`, or on objects the contract names as modifiable."""
    t = simp(o.t)
    oid = simp(V.oid(t))
    if z3.is_int_value(oid) and oid.as_long() >= 1_000_000 and o.own == "fresh":
        return
    task = ctx.current
    if task is None or ctx.spec_mode or not task.check_frame:
        return
    if task.may_modify(ctx, fr, path, o, attr):
        return
    frame_violation(ctx, fr, path, f"attribute store .{attr} on an object outside the frame", node)


def write_through(ctx, fr, path, old, new, node):
    """A local that aliases a container item / object field was mutated in place: propagate."""
    src = old.src
    if src is None:
        if old.own == "borrow":
            check_container_write(ctx, fr, path, old, node)
        yield path
        return
    kind = src[0]
    if kind == "attr":
        _, obj, field = src
        check_obj_write(ctx, fr, path, obj, field, node)
        ctx.write_field(path, obj, field, new)
        yield path
        return
    if kind == "item":
        _, cont, key = src
        newc = set_item(ctx, fr, path, cont, key, new, node)
        # propagate one more level if the container itself is an alias
        if cont.src is not None:
            yield from write_through(ctx, fr, path, cont, newc, node)
            return
        # find locals bound to the same container term and rebind them
        hit = False
        for name, v in list(path.env.items()):
            if isinstance(v, Val) and v is not old and z3.eq(simp(v.t), simp(cont.t)):
                path.env[name] = Val(newc.t, v.ann, own=v.own, deep=v.deep, src=v.src)
                hit = True
        if not hit and cont.own == "borrow":
            check_container_write(ctx, fr, path, cont, node)
        yield path
        return
    yield path


def check_container_write(ctx, fr, path, cont, node):
    task = ctx.current
    if task is None or ctx.spec_mode or not task.check_frame:
        return
    if task.may_modify_value(ctx, fr, path, cont):
        return
    frame_violation(ctx, fr, path, "in-place mutation of a container owned by the caller/model", node)


def set_item(ctx, fr, path, cont, key, val, node=None):
    k = ctx.kind(cont)
    if k == "VRec":
        return rec_store(ctx, path, cont, key, val)
    if k == "VList":
        seq = ctx.as_seq(path, cont)
        idx = ctx.as_int(path, key)
        n = z3.Length(seq)
        ctx.safety(path, z3.And(idx < n, idx >= -n), "list index in range (store)", _where(node))
        i = simp(z3.If(idx < 0, n + idx, idx))
        ns = simp(z3.Concat(z3.Extract(seq, 0, i), z3.Unit(val.t), z3.Extract(seq, i + 1, n - i - 1)))
        nv = Val(V.VList(ns), cont.ann, own=cont.own, deep=cont.deep and val.own != "borrow", src=cont.src)
        nv.root = cont.root
        return nv
    if k == "VDict":
        has, get, keys = ctx.dict_parts(path, cont)
        nkeys = simp(z3.If(z3.Select(has, key.t), keys, z3.Concat(keys, z3.Unit(key.t))))
        nd = ctx.mk_dict(path, z3.Store(has, key.t, True), z3.Store(get, key.t, val.t), nkeys, cont.ann, own=cont.own)
        nd.src = cont.src
        nd.deep = cont.deep
        return nd
    raise Unsupported(f"item store on {k} ({_where(node)})")


# ------------------------------------------------------------------------------------------------ control flow
def merge_terms(ctx, m, c, ta, tb, pa, pb):
    """ite of two V terms, keeping a known constructor at the top (lists, strings, sets ...)."""
    ta, tb = simp(ta), simp(tb)
    ca, cb = smt.ctor(ta), smt.ctor(tb)
    if (ca == "VSet" or cb == "VSet") and ca != cb and (ca is None or cb is None):
        # one arm replaced the set, the other kept the (symbolic) original: join the contents
        aa = ctx.set_arr(pa, Val(ta))
        ab = ctx.set_arr(pb, Val(tb))
        sid = next(ctx.alloc)
        m.sets[sid] = simp(z3.If(c, aa, ab))
        return V.VSet(z3.IntVal(sid), simp(z3.If(c, V.fz(ta), V.fz(tb))))
    if ca is not None and ca == cb:
        if ca in ("VList", "VTuple", "VStr", "VInt", "VBool", "VFloat"):
            return simp(getattr(V, ca)(z3.If(c, ta.arg(0), tb.arg(0))))
        if ca == "VSet":
            aa = ctx.set_arr(pa, Val(ta))
            ab = ctx.set_arr(pb, Val(tb))
            sid = next(ctx.alloc)
            m.sets[sid] = simp(z3.If(c, aa, ab))
            return V.VSet(z3.IntVal(sid), simp(z3.If(c, ta.arg(1), tb.arg(1))))
    return simp(z3.If(c, ta, tb))


def _join_ann(a, b):
    """Annotation of a value that is either of two: equal annotations, or a container annotation whose element shape
    is known on one side only and unconstrained (empty literal, no appends yet) on the other."""
    if a == b:
        return a
    for x, y in ((a, b), (b, a)):
        if x is not None and x[0] in ("list", "set") and (y is None or (y[0] == x[0] and len(y) > 1 and y[1] is None)):
            if y is None:
                continue
            return x
    return None


def merge_paths(ctx, base, c, pt, pf):
    """Join two paths that fell through the arms of `if c:` into one path with ite-values (None if the states
    cannot be joined). Facts learned inside an arm are kept guarded by the arm's condition."""
    nb = len(base.pc)
    if len(pt.pc) != nb + 1 or len(pf.pc) != nb + 1:
        return None
    m = base.fork()
    notc = simp(z3.Not(c))
    for name in set(pt.env) | set(pf.env):
        a, b = pt.env.get(name), pf.env.get(name)
        if a is None or b is None:
            return None
        if a is b:
            m.env[name] = a
            continue
        if isinstance(a, Val) and isinstance(b, Val):
            if z3.eq(simp(a.t), simp(b.t)):
                m.env[name] = a if a.ann == b.ann else Val(a.t, _join_ann(a.ann, b.ann), own=a.own, deep=a.deep, src=a.src)
                continue
            v = Val(merge_terms(ctx, m, c, a.t, b.t, pt, pf), _join_ann(a.ann, b.ann),
                    own="imm" if (a.own == "imm" and b.own == "imm") else ("borrow" if "borrow" in (a.own, b.own) else "fresh"),
                    deep=a.deep and b.deep, src=a.src if a.src is b.src else None)
            v.root = a.root if a.root == b.root else None
            v.unord = a.unord or b.unord
            m.env[name] = v
            continue
        return None
    for field in set(pt.heap) | set(pf.heap):
        a = pt.heap.get(field)
        b = pf.heap.get(field)
        if a is None:
            a = ctx.heap_arr(base, field)
        if b is None:
            b = ctx.heap_arr(base, field)
        if z3.eq(a, b):
            m.heap[field] = a
            continue
        # join location-wise so that the array stays a chain of stores over the entry array
        from .loops import heap_writes
        e = ctx.heap_arr(base, field)
        wa, wb = heap_writes(e, a), heap_writes(e, b)
        if wa is None or wb is None:
            return None
        arr = e
        seen = set()
        for idx, _ in wa + wb:
            if idx.get_id() in seen:
                continue
            seen.add(idx.get_id())
            arr = z3.Store(arr, idx, merge_terms(ctx, m, c, z3.Select(a, idx), z3.Select(b, idx), pt, pf))
        m.heap[field] = simp(arr)
    for key in set(pt.fresh) | set(pf.fresh):
        a, b = pt.fresh.get(key), pf.fresh.get(key)
        if a is None or b is None:
            m.fresh[key] = a if a is not None else b
        else:
            m.fresh[key] = a if z3.eq(a, b) else merge_terms(ctx, m, c, a, b, pt, pf)
    for k, v in list(pt.sets.items()) + list(pf.sets.items()):
        m.sets.setdefault(k, v)
    for k, v in list(pt.dicts.items()) + list(pf.dicts.items()):
        m.dicts.setdefault(k, v)
    for g in set(pt.ghost) | set(pf.ghost):
        a, b = pt.ghost.get(g), pf.ghost.get(g)
        if a is None or b is None:
            return None
        m.ghost[g] = a if z3.eq(simp(a.t), simp(b.t)) else Val(merge_terms(ctx, m, c, a.t, b.t, pt, pf), a.ann if a.ann == b.ann else None)
    nf = len(base.facts)
    for f in pt.facts[nf:]:
        m.facts.append(z3.Implies(c, f))
    for f in pf.facts[nf:]:
        m.facts.append(z3.Implies(notc, f))
    for n in pt.notes + pf.notes:
        if n not in m.notes:
            m.notes.append(n)
    return m


def s_If(ctx, fr, path, st):
    out = []
    for p, c in ev(ctx, fr, path, st.test):
        cond = simp(ctx.truthy(p, c))
        if p.eqs and not (z3.is_true(cond) or z3.is_false(cond)):
            cond = simp(z3.substitute(cond, *p.eqs))
        if z3.is_true(cond) or z3.is_false(cond):
            out += exec_block(ctx, fr, p, st.body if z3.is_true(cond) else st.orelse)
            continue
        notcond = simp(z3.Not(cond))
        if not ctx.feasible(p, cond):
            ctx._learn(p, cond, False)
            out += exec_block(ctx, fr, p, st.orelse)
            continue
        if not ctx.feasible(p, notcond):
            ctx._learn(p, cond, True)
            out += exec_block(ctx, fr, p, st.body)
            continue
        # execute both arms; join them when each falls through on a single path
        pt = p.fork()
        pt.pc.append(cond)
        ctx._learn(pt, cond, True)
        pf = p.fork()
        pf.pc.append(simp(z3.Not(cond)))
        ctx._learn(pf, cond, False)
        n_ob = len(ctx.obligations)
        outs_t = exec_block(ctx, fr, pt, st.body)
        outs_f = exec_block(ctx, fr, pf, st.orelse) if st.orelse else [(pf, Outcome("fall"))]
        if not getattr(ctx, "no_merge", False) and len(outs_t) == 1 and len(outs_f) == 1 \
                and outs_t[0][1].kind == "fall" and outs_f[0][1].kind == "fall":
            m = merge_paths(ctx, p, cond, outs_t[0][0], outs_f[0][0])
            if m is not None:
                out.append((m, Outcome("fall")))
                continue
        out += outs_t + outs_f
    return out


def s_Assert(ctx, fr, path, st):
    out = []
    for p, c in ev(ctx, fr, path, st.test):
        cond = ctx.truthy(p, c)
        if ctx.spec_mode:
            p.assume(cond)
        else:
            ctx.safety(p, cond, "assert", _where(st))
        out.append((p, Outcome("fall")))
    return out


def s_For(ctx, fr, path, st):
    from .loops import exec_for
    return exec_for(ctx, fr, path, st)


def _same_term(a, b):
    if a is b:
        return True
    if isinstance(a, tuple) or isinstance(b, tuple):
        return isinstance(a, tuple) and isinstance(b, tuple) and len(a) == len(b) and all(_same_term(x, y) for x, y in zip(a, b))
    return z3.eq(a, b)


def loop_spec_for(ctx, fr, st):
    """Sidecar invariant of a loop of the function under verification: while loops are keyed by their ordinal
    (int, source order from 1), for loops by "for<ordinal>"."""
    task = ctx.current
    if task is None or fr.func is None or fr.func.target != task.target or ctx.spec_mode:
        return None
    kind = ast.While if isinstance(st, ast.While) else ast.For
    loops = sorted((n for n in ast.walk(fr.func.node) if isinstance(n, kind)), key=lambda n: (n.lineno, n.col_offset))
    k = loops.index(st) + 1
    return task.contract.loop_invariants.get(k if kind is ast.While else f"for{k}")


class _LoopInv:
    def __init__(self, ctx, fr, st, spec):
        from .contracts import parse_ann_text
        task = ctx.current
        spec_mi = ctx.src.module(task.contract.spec_mod)
        self.ctx, self.fr, self.st = ctx, fr, st
        self.shapes = {n: parse_ann_text(ctx, a, spec_mi, fr.mi) for n, a in (spec.get("shapes") or {}).items()}
        self.inv_node = ast.parse(spec["inv"], mode="eval").body if spec.get("inv") else None
        self.where = f"{'while' if isinstance(st, ast.While) else 'for'} loop at line {st.lineno}"
        self.spec_mi = spec_mi
        # heap locations the body may write ("<local>.<field>"): arbitrary (of their declared shape) at the loop
        # head, constrained by the invariant only
        self.modifies = list(spec.get("modifies") or [])
        self.mod_fields = set()
        for m in self.modifies:
            root, attr = m.split(".")
            if attr.startswith("__") and not attr.endswith("__") and fr.cls is not None:
                attr = f"_{fr.cls.name.lstrip('_')}{attr}"
            self.mod_fields.add(attr)

    def _frame(self):
        # the invariant is an expression over the locals of the real function; names it does not find there
        # (spec functions, classes) are resolved in the sidecar module
        f = Frame(self.fr.mi, func=self.fr.func, cls=self.fr.cls, spec=True)
        f.fallback_mi = self.spec_mi
        f.old_path = getattr(self.ctx.current, "entry_path", None)
        return f

    def check(self, p, label):
        from .values import ann_fact
        ctx = self.ctx
        for n, a in self.shapes.items():
            v = p.env.get(n)
            if not isinstance(v, Val):
                raise Unsupported(f"loop invariant names {n}, which is not a local value ({self.where})")
            f = ann_fact(v.t, a, ctx.ct)
            if f is not None:
                ctx.oblige(p, f, "invariant", f"inv:{label}:{n}", self.where)
        if self.inv_node is not None:
            ctx.spec_mode += 1
            try:
                for q, c in ev(ctx, self._frame(), p.fork(), self.inv_node):
                    ctx.oblige(q, ctx.truthy(q, c), "invariant", f"inv:{label}", self.where)
            finally:
                ctx.spec_mode -= 1

    def assume(self, p):
        ctx = self.ctx
        if self.inv_node is None:
            return [p]
        ctx.spec_mode += 1
        try:
            outs = list(ev(ctx, self._frame(), p, self.inv_node))
        finally:
            ctx.spec_mode -= 1
        res = []
        for q, c in outs:
            q.assume(ctx.truthy(q, c), "loop invariant")
            if ctx.feasible(q):
                res.append(q)
        return res

    def havoc(self, path, names):
        from .values import ann_fact
        ctx = self.ctx
        for n in names:
            if n in path.env and not isinstance(path.env[n], Val):
                raise Unsupported(f"loop body rebinds non-value local {n} ({self.where})")
            a = self.shapes.get(n)
            t = ctx.newV(f"{n}_loop")
            f = ann_fact(t, a, ctx.ct)
            if f is not None:
                path.assume(f, "loop invariant (shape)")
            path.env[n] = Val(t, a, own="fresh" if a is not None and a[0] == "list" else "borrow")

    def havoc_heap(self, path):
        from .contracts import make_symbolic
        ctx = self.ctx
        # ghost logs (LOG, EXT) may grow in the body: arbitrary at the loop head, constrained by the invariant only
        for gname in list(path.ghost):
            if isinstance(gname, str):
                path.ghost[gname] = Val(V.VList(ctx.new("ghost_" + gname + "_loop", smt.SeqV)), ("list", None))
        for m in self.modifies:
            rootname, attr0 = m.split(".")
            root = path.env.get(rootname)
            if not isinstance(root, Val):
                raise Unsupported(f"loop invariant modifies {m}: {rootname} is not a local value ({self.where})")
            attr = attr0
            if attr.startswith("__") and not attr.endswith("__") and self.fr.cls is not None:
                attr = f"_{self.fr.cls.name.lstrip('_')}{attr}"
            ann = None
            from .expr import possible_classes
            classes = possible_classes(ctx, path, root) or []
            for ci in classes:
                ann = ci.all_fields().get(attr0) or ctx.extern_field_ann(ci, attr)
                if ann is not None:
                    break
            nv = make_symbolic(ctx, path, "lv_" + attr, ann)
            nv.own = "borrow"
            ctx.write_field(path, root, attr, nv)

    def snapshot(self, path):
        return (dict(path.heap), dict(path.fresh), dict(path.sets), dict(path.dicts))

    def check_frame(self, snap, r):
        now = (r.heap, r.fresh, r.sets, r.dicts)
        for idx, (a0, a1) in enumerate(zip(snap, now)):
            for k in a0:
                if idx == 0 and k in self.mod_fields:
                    continue        # declared in the invariant's modifies; writes are still checked against the function's frame
                if idx == 1 and isinstance(k, tuple) and k[0] in self.mod_fields:
                    continue
                if k not in a1 or not _same_term(a0[k], a1[k]):
                    raise Unsupported(f"loop body changes the heap outside the invariant's modifies ({self.where})")
        for k, t in r.heap.items():
            if k in self.mod_fields:
                continue
            # fields first read inside the body appear as their initial arrays: reads, not writes
            if k not in snap[0] and not (z3.is_const(t) and t.decl().kind() == z3.Z3_OP_UNINTERPRETED):
                raise Unsupported(f"loop body changes the heap ({self.where})")


def s_While(ctx, fr, path, st):
    """while loop by a sidecar inductive invariant (partial correctness: termination is not proved).

    The contract of the function under verification lists, per while-loop ordinal (source order, from 1),
    `{"shapes": {local: annotation}, "inv": "<bool expr over locals>"}`. Obligations: the invariant holds on
    entry and is preserved by one arbitrary iteration; after the loop the locals the body assigns are
    arbitrary values satisfying the invariant and the negated condition. The body may not change the heap."""
    from .loops import assigned_names
    spec = loop_spec_for(ctx, fr, st)
    if spec is None or st.orelse:
        raise Unsupported(f"while loop at line {st.lineno} (needs an invariant)")
    li = _LoopInv(ctx, fr, st, spec)
    li.check(path, "entry")
    li.havoc(path, sorted(assigned_names(st.body)))
    li.havoc_heap(path)
    path.note(f"{li.where}: summarised by the sidecar invariant; termination not proved")
    out = []
    for path in li.assume(path):
        snap = li.snapshot(path)
        for p, c in ev(ctx, fr, path, st.test):
            for q, tv in ctx.branch(p, ctx.truthy(p, c), "while"):
                if not tv:
                    out.append((q, Outcome("fall")))
                    continue
                for r, o in exec_block(ctx, fr, q, st.body):
                    li.check_frame(snap, r)
                    if o.kind in ("fall", "continue"):
                        li.check(r, "preserved")        # this iteration ends here; the next one starts from the invariant
                    elif o.kind == "break":
                        raise Unsupported(f"break inside a loop with an invariant ({li.where})")
                    else:
                        out.append((r, o))
    return out


def exec_for_with_invariant(ctx, fr, path, st, spec):
    """for loop over a list by a sidecar inductive invariant. The invariant may mention `_k`, the number of
    elements already processed (so `xs[:_k]` is the processed prefix). Obligations: invariant at _k = 0,
    preserved from _k to _k + 1 by an arbitrary iteration; after the loop it holds at _k = len."""
    from .loops import assigned_names, iter_source, _target_names
    li = _LoopInv(ctx, fr, st, spec)
    out = []
    for p, src in iter_source(ctx, fr, path, st.iter):
        if src.unord:
            raise Unsupported(f"invariant over an unordered iteration ({li.where})")
        p.env["_k"] = Val(V.VInt(src.lo), ("int",))
        li.check(p, "entry")
        names = sorted(set(assigned_names(st.body)) - set(_target_names(st.target)))
        li.havoc(p, names)
        li.havoc_heap(p)
        p.note(f"{li.where}: summarised by the sidecar invariant")
        K = ctx.new("k_loop", smt.IntS)
        # ---- after the loop
        after = p.fork()
        after.env["_k"] = Val(V.VInt(src.hi), ("int",))
        for a in li.assume(after):
            a.env.pop("_k", None)
            for n in _target_names(st.target):
                if n not in path.env:
                    a.env.pop(n, None)
            out.append((a, Outcome("fall")))
        # ---- one arbitrary iteration
        it0 = p.fork()
        it0.assume(z3.And(src.lo <= K, K < src.hi), "arbitrary iteration index")
        if not ctx.feasible(it0):
            continue
        it0.env["_k"] = Val(V.VInt(K), ("int",))
        for it in li.assume(it0):
            snap = li.snapshot(it)
            el = src.elem(it, K)
            for q in assign_to(ctx, fr, it, st.target, el):
                saved_nm = getattr(ctx, "no_merge", False)
                ctx.no_merge = saved_nm or (spec.get("merge") is False)
                try:
                    body_outs = exec_block(ctx, fr, q, st.body)
                finally:
                    ctx.no_merge = saved_nm
                for r, o in body_outs:
                    li.check_frame(snap, r)
                    if o.kind in ("fall", "continue"):
                        r.env["_k"] = Val(V.VInt(simp(K + 1)), ("int",))
                        li.check(r, "preserved")
                    elif o.kind == "break":
                        raise Unsupported(f"break inside a loop with an invariant ({li.where})")
                    else:
                        r.env.pop("_k", None)
                        out.append((r, o))
    return out


def s_FunctionDef(ctx, fr, path, st):
    path.env[st.name] = Closure(st, path.env, fr.mi)
    return [(path, Outcome("fall"))]


def s_Import(ctx, fr, path, st):
    for a in st.names:
        nm = a.asname or a.name.split(".")[0]
        path.env[nm] = ModRef(a.name if a.asname else a.name.split(".")[0], extern=not ctx.src.has(a.name))
    return [(path, Outcome("fall"))]


def s_ImportFrom(ctx, fr, path, st):
    base = st.module or ""
    if st.level:
        raise Unsupported("relative import inside function")
    for a in st.names:
        if ctx.src.has(base):
            v = ctx.module_attr(ModRef(base), a.name)
        else:
            v = ctx.extern_attr(base, a.name)
        path.env[a.asname or a.name] = v
    return [(path, Outcome("fall"))]


def exc_matches(ctx, path, exc, handler_type):
    """z3 Bool: does exception value `exc` match the handler's class (or tuple of classes)?"""
    if handler_type is None:
        return z3.BoolVal(True)
    cls_list = []
    if isinstance(handler_type, ClassRef):
        cls_list = [handler_type.info]
    else:
        raise Unsupported("except clause type")
    ids = [c.cid for ci in cls_list for c in ci.all_subclasses()]
    return simp(z3.Or([V.cls(exc.t) == i for i in ids]))


def s_Try(ctx, fr, path, st):
    if st.finalbody:
        raise Unsupported("try/finally")
    out = []
    for p, o in exec_block(ctx, fr, path, st.body):
        if o.kind == "fall":
            out += exec_block(ctx, fr, p, st.orelse) if st.orelse else [(p, o)]
            continue
        if o.kind != "raise":
            out.append((p, o))
            continue
        # dispatch to handlers
        pending = [(p, o)]
        for h in st.handlers:
            nxt = []
            for q, oo in pending:
                htype = None
                if h.type is not None:
                    hv = list(ev(ctx, fr, q, h.type))
                    htype = hv[0][1]
                m = exc_matches(ctx, q, oo.value, htype)
                for r, tv in ctx.branch(q, m, f"except@{h.lineno}"):
                    if tv:
                        if h.name:
                            r.env[h.name] = oo.value
                        r.env["#exc"] = oo.value
                        out += exec_block(ctx, fr, r, h.body)
                    else:
                        nxt.append((r, oo))
            pending = nxt
        out += pending
    return out


def s_Match(ctx, fr, path, st):
    out = []
    for p, subj in ev(ctx, fr, path, st.subject):
        pending = [p]
        for case in st.cases:
            nxt = []
            for q in pending:
                pat = case.pattern
                if case.guard is not None:
                    raise Unsupported("match guard")
                if isinstance(pat, ast.MatchAs) and pat.pattern is None:
                    if pat.name:
                        q.env[pat.name] = subj
                    out += exec_block(ctx, fr, q, case.body)
                    continue
                if isinstance(pat, ast.MatchValue):
                    for r, pv in ev(ctx, fr, q, pat.value):
                        for r2, c in py_eq(ctx, fr, r, subj, pv):
                            for r3, tv in ctx.branch(r2, c, f"case@{pat.lineno}"):
                                if tv:
                                    out += exec_block(ctx, fr, r3, case.body)
                                else:
                                    nxt.append(r3)
                    continue
                if isinstance(pat, ast.MatchSingleton):
                    c = subj.t == ctx.lift(pat.value).t
                    for r3, tv in ctx.branch(q, c, f"case@{pat.lineno}"):
                        if tv:
                            out += exec_block(ctx, fr, r3, case.body)
                        else:
                            nxt.append(r3)
                    continue
                raise Unsupported(f"match pattern {type(pat).__name__}")
            pending = nxt
        out += [(q, Outcome("fall")) for q in pending]
    return out


def s_With(ctx, fr, path, st):
    from .calls import exec_with
    return exec_with(ctx, fr, path, st)


def s_Global(ctx, fr, path, st):
    raise Unsupported("global/nonlocal")


_STMTS = {
    ast.Expr: s_Expr, ast.Pass: s_Pass, ast.Return: s_Return, ast.Raise: s_Raise, ast.Break: s_Break,
    ast.Continue: s_Continue, ast.Assign: s_Assign, ast.AnnAssign: s_AnnAssign, ast.AugAssign: s_AugAssign,
    ast.If: s_If, ast.Assert: s_Assert, ast.For: s_For, ast.While: s_While, ast.FunctionDef: s_FunctionDef,
    ast.Import: s_Import, ast.ImportFrom: s_ImportFrom, ast.Try: s_Try, ast.Match: s_Match, ast.With: s_With,
}
