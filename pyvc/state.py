"""Symbolic state (one path) and obligations."""
from __future__ import annotations

import itertools
from dataclasses import dataclass, field

import z3

from . import smt
from .smt import V

ALLOC_BASE = 1_000_000


class Path:
    __slots__ = ("env", "pc", "facts", "heap", "ghost", "notes", "alloc", "sets", "dicts", "tainted", "trace", "fresh", "eqs")

    def __init__(self):
        self.env = {}
        self.pc = []
        self.facts = []
        self.heap = {}      # field name -> Array Int V
        self.ghost = {}     # ghost variable name -> Val
        self.notes = []     # assumptions used on this path (names)
        self.alloc = None   # shared counter (itertools.count)
        self.sets = {}      # concrete sid -> Array V Bool term
        self.dicts = {}     # concrete did -> (has Array, get Array, keys Seq)
        self.tainted = set()
        self.trace = []     # branch decisions, for witnesses
        self.fresh = {}     # (field, concrete oid) -> V term: fields of objects allocated on this path
        self.eqs = []       # (term, literal) equalities known from branch conditions (cheap pruning)

    def fork(self):
        p = Path()
        p.env = dict(self.env)
        p.pc = list(self.pc)
        p.facts = list(self.facts)
        p.heap = dict(self.heap)
        p.ghost = dict(self.ghost)
        p.notes = list(self.notes)
        p.alloc = self.alloc
        p.sets = dict(self.sets)
        p.dicts = dict(self.dicts)
        p.tainted = set(self.tainted)
        p.trace = list(self.trace)
        p.fresh = dict(self.fresh)
        p.eqs = list(self.eqs)
        return p

    def hyps(self):
        return list(self.pc) + list(self.facts)

    def assume(self, f, note=None):
        if f is None:
            return
        f = z3.simplify(f)
        if z3.is_true(f):
            return
        if z3.is_and(f):
            for c in f.children():
                self.facts.append(c)
        else:
            self.facts.append(f)
        if note and note not in self.notes:
            self.notes.append(note)

    def note(self, n):
        if n not in self.notes:
            self.notes.append(n)


@dataclass
class Obligation:
    name: str                 # Cxx/<target>/<clause>[#n]
    kind: str                 # ensures | safety | frame | requires | invariant | lemma | cover
    hyps: list
    goal: object              # z3 Bool; obligation is hyps => goal
    target: str = ""
    clause: str = ""
    notes: list = field(default_factory=list)
    where: str = ""           # source location text
    region: object = None     # known-finding id excluded from this obligation, if any
    status: str = "open"      # discharged | failed | unknown | error
    backend: str = ""
    seconds: float = 0.0
    model: object = None
    model_text: str = ""
    expect_sat: bool = False  # cover obligations: hyps must be satisfiable
    props: list = None        # properties this obligation carries (None = those of the contract)
    known: list = field(default_factory=list)


class Outcome:
    __slots__ = ("kind", "value")

    def __init__(self, kind, value=None):
        self.kind = kind      # fall | ret | raise | break | continue
        self.value = value

    def __repr__(self):
        return f"Outcome({self.kind})"
