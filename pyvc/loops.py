"""Loops and comprehensions.

A `for` loop over a finite sequence is summarised without a user invariant when every location it updates
follows an accumulation pattern whose per-iteration contribution does not depend on the accumulated state:

    list append / extend      acc' = acc ++ piece(k)        ->  acc0 ++ CM_h(lo, hi)
    string concatenation      acc' = acc +  piece(k)        ->  acc0 +  CS_h(lo, hi)
    set add / update          acc' = acc |  piece(k)        ->  acc0 |  CU_h(lo, hi)
    latch                     acc' = c if cond(k) else acc  ->  c if ANY_h(lo, hi) else acc0
    last write                acc' = f(k) if cond(k) else acc -> f(LAST_h) if LAST_h >= lo else acc0

CM_h etc. are uninterpreted fold symbols keyed by the normalised piece term; their defining equations
(empty range, unit range, range split) are instantiated at the terms occurring in an obligation
(fold_instances). This is the induction principle of the engine: the per-iteration step is verified once for
an arbitrary index k with lo <= k < hi and arbitrary accumulated state. Loops with `break`/`return` are
summarised with FIRST_h (least index whose exit condition holds). Locations that start with a literal value
and are not invariant are handled by peeling the first iteration (flags such as `first = True`).
"""
from __future__ import annotations

import ast
import re
import hashlib

import z3

from . import smt
from .expr import Frame, ev, ev_list, _where
from .smt import V, simp
from .state import Outcome
from .values import (Bound, Builtin, ClassRef, Closure, ExtFunc, FuncRef, Unsupported, Val, ann_elem, ann_fact,
                     ann_mutable)

UNROLL_MAX = 6


class IterSrc:
    """Index-based view of an iterable: indices lo..hi-1, elem(path, k) -> value bound to the loop target."""

    def __init__(self, lo, hi, elem, desc, unord=False):
        self.lo, self.hi, self.elem, self.desc, self.unord = lo, hi, elem, desc, unord


class FoldInfo:
    def __init__(self, name, kind, fn, K0, piece, facts, unit_len=None):
        self.name, self.kind, self.fn, self.K0, self.piece, self.facts = name, kind, fn, K0, piece, facts
        self.unit_len = unit_len   # for seq folds: every piece has exactly this many elements (or None)


# ------------------------------------------------------------------------------------------------ iterables
def _seq_range(ctx, path, seq):
    """Normalise a sequence term to (base, lo, hi): slices of a base list iterate a sub-range of its indices."""
    s0 = simp(seq)
    if not (z3.is_app(s0) and s0.decl().kind() == z3.Z3_OP_ITE):
        seq = s0
    if z3.is_app(seq) and seq.decl().kind() == z3.Z3_OP_SEQ_EXTRACT:
        base, off, ln = seq.children()
        b2, lo2, hi2 = _seq_range(ctx, path, base)
        n = z3.Length(base)
        if seq.get_id() in ctx.safe_extracts:
            return b2, simp(lo2 + off), simp(lo2 + off + ln)
        # Extract clamps: valid when 0 <= off and off+ln <= len(base) on this path; otherwise keep opaque
        s = z3.Solver()
        s.set("timeout", 1000)
        s.add(*path.hyps())
        s.add(z3.Not(z3.And(off >= 0, ln >= 0, off + ln <= n)))
        if s.check() == z3.unsat:
            return b2, simp(lo2 + off), simp(lo2 + off + ln)
    return seq, z3.IntVal(0), simp(z3.Length(seq))


def iter_source(ctx, fr, path, node):
    """yields (path, IterSrc) for the iterable expression `node` of a for/comprehension."""
    if isinstance(node, ast.Call) and isinstance(node.func, ast.Name) and node.func.id in ("enumerate", "zip", "range", "reversed") \
            and node.func.id not in path.env:
        name = node.func.id
        if name == "enumerate":
            start = None
            for p, src in iter_source(ctx, fr, path, node.args[0]):
                lo0 = src.lo

                def elem(q, k, src=src, lo0=lo0):
                    e = src.elem(q, k)
                    return Val(V.VTuple(smt.seq_of_list([V.VInt(simp(k - lo0)), ctx.toV(e).t])), ("tuple", [("int",), e.ann if isinstance(e, Val) else None]),
                               own="imm" if (isinstance(e, Val) and e.own == "imm") else "borrow")
                yield p, IterSrc(src.lo, src.hi, elem, ("enumerate", src.desc), src.unord)
            return
        if name == "range":
            for p, vals in ev_list(ctx, fr, path, node.args):
                if len(vals) == 1:
                    lo, hi = z3.IntVal(0), ctx.as_int(p, vals[0])
                elif len(vals) == 2:
                    lo, hi = ctx.as_int(p, vals[0]), ctx.as_int(p, vals[1])
                else:
                    raise Unsupported("range with step")
                yield p, IterSrc(lo, hi, lambda q, k: Val(V.VInt(simp(k)), ("int",)), ("range",))
            return
        if name == "zip":
            strict = any(kw.arg == "strict" for kw in node.keywords)

            def go(p, i, acc):
                if i == len(node.args):
                    yield p, acc
                    return
                for q, s in iter_source(ctx, fr, p, node.args[i]):
                    yield from go(q, i + 1, acc + [s])
            for p, srcs in go(path, 0, []):
                n = srcs[0].hi - srcs[0].lo
                for s in srcs[1:]:
                    m = s.hi - s.lo
                    if strict:
                        ctx.safety(p, simp(m == n), "zip(strict=True) lengths equal", _where(node))
                    else:
                        n = z3.If(m < n, m, n)
                n = simp(n)

                def elem(q, k, srcs=srcs):
                    es = [s.elem(q, simp(s.lo + k)) for s in srcs]
                    return Val(V.VTuple(smt.seq_of_list([ctx.toV(e).t for e in es])), ("tuple", [e.ann if isinstance(e, Val) else None for e in es]),
                               own="borrow")
                yield p, IterSrc(z3.IntVal(0), n, elem, ("zip", tuple(s.desc for s in srcs)), any(s.unord for s in srcs))
            return
        raise Unsupported(f"iteration over {name}(...)")
    # d.items() / d.values() / d.keys()
    if isinstance(node, ast.Call) and isinstance(node.func, ast.Attribute) and node.func.attr in ("items", "values", "keys") and not node.args:
        for p, d in ev(ctx, fr, path, node.func.value):
            if isinstance(d, Val) and ctx.kind(d) == "VDict":
                has, get, keys = ctx.dict_parts(p, d)
                ka = d.ann[1] if d.ann and d.ann[0] == "dict" else None
                va = d.ann[2] if d.ann and d.ann[0] == "dict" else None
                which = node.func.attr

                def elem(q, k, has=has, get=get, keys=keys, ka=ka, va=va, which=which, d=d):
                    kt = smt.nth(keys, k)
                    q.assume(z3.Select(has, kt), "dict iteration yields present keys")
                    kv = Val(kt, ka)
                    f = ann_fact(kt, ka, ctx.ct)
                    if f is not None:
                        q.assume(f)
                    vt = simp(z3.Select(get, kt))
                    vv = Val(vt, va, own="imm" if not ann_mutable(va) else d.own, src=("item", d, kv))
                    f = ann_fact(vt, va, ctx.ct)
                    if f is not None:
                        q.assume(f)
                    if which == "keys":
                        return kv
                    if which == "values":
                        return vv
                    return Val(V.VTuple(smt.seq_of_list([kt, vt])), ("tuple", [ka, va]), own="borrow")
                yield p, IterSrc(z3.IntVal(0), simp(z3.Length(keys)), elem, ("dict", which, str(keys)), unord=False)
                continue
            raise Unsupported("items()/values() on a non-dict")
        return
    for p, v in ev(ctx, fr, path, node):
        yield p, source_of_value(ctx, p, v, node)


def source_of_value(ctx, p, v, node=None):
    if not isinstance(v, Val):
        from .expr import _ConstSet
        if isinstance(v, _ConstSet):
            v = v.v
        else:
            raise Unsupported(f"iteration over {type(v).__name__}")
    k = ctx.kind(v)
    if k in ("VList", "VTuple") or (v.ann is not None and v.ann[0] == "seq"):
        seq = ctx.as_seq(p, v)
        base, lo, hi = _seq_range(ctx, p, seq)
        ea = ann_elem(v.ann)

        fused = None
        if z3.is_app(base) and base.decl().name() in ctx.folds:
            fi = ctx.folds[base.decl().name()]
            pc = simp(fi.piece)
            if fi.kind == "seq" and fi.unit_len == 1 and z3.is_app(pc) and pc.decl().kind() == z3.Z3_OP_SEQ_UNIT:
                fused = (fi, pc.arg(0), base.arg(0))

        def elem(q, kk, base=base, ea=ea, v=v, fused=fused):
            if fused is not None:
                # map fusion: the k-th element of a map fold is its piece at index lo + k
                fi, el0, flo = fused
                idx = simp(flo + kk)
                t = simp(z3.substitute(el0, (fi.K0, idx)))
                for bf in fi.facts:
                    q.assume(z3.substitute(bf, (fi.K0, idx)))
                q.assume(smt.nth(base, kk) == t, "element of a map fold")
            else:
                t = smt.nth(base, kk)
            f = ann_fact(t, ea, ctx.ct)
            if f is not None:
                q.assume(f, "declared element shapes")
            el = Val(t, ea, own="imm" if not ann_mutable(ea) else v.own, deep=v.deep, src=("item", v, Val(V.VInt(kk))))
            if ea is not None and ea[0] == "obj" and ea[1].is_enum:
                ctx.enum_fact(q, el, ea[1])
            for (parts, sep, s) in ctx.split_terms:
                if z3.eq(parts, base):
                    q.assume(z3.And(V.is_VStr(t), z3.Not(z3.Contains(V.s(t), sep))), "str.split parts do not contain the separator")
            return el
        return IterSrc(lo, hi, elem, ("seq", base.sexpr()), v.unord)
    if k == "VSet":
        arr = ctx.set_arr(p, v)
        perm = ctx.func("set_perm", smt.SetA, smt.SeqV)(arr)
        ea = ann_elem(v.ann)
        p.note("set iteration: an arbitrary fixed permutation of the contents")

        def elem(q, kk, perm=perm, arr=arr, ea=ea):
            t = smt.nth(perm, kk)
            q.assume(z3.Select(arr, t), "set iteration yields members")
            f = ann_fact(t, ea, ctx.ct)
            if f is not None:
                q.assume(f)
            return Val(t, ea, own="imm" if not ann_mutable(ea) else "borrow")
        p.assume((z3.Length(perm) == 0) == (arr == smt.EMPTY_SET))
        return IterSrc(z3.IntVal(0), simp(z3.Length(perm)), elem, ("set", perm.sexpr()), unord=True)
    if k == "VDict":
        has, get, keys = ctx.dict_parts(p, v)
        ka = v.ann[1] if v.ann and v.ann[0] == "dict" else None

        def elem(q, kk, keys=keys, has=has, ka=ka):
            t = smt.nth(keys, kk)
            q.assume(z3.Select(has, t), "dict iteration yields present keys")
            f = ann_fact(t, ka, ctx.ct)
            if f is not None:
                q.assume(f)
            return Val(t, ka)
        return IterSrc(z3.IntVal(0), simp(z3.Length(keys)), elem, ("dictkeys", keys.sexpr()))
    if k == "VStr":
        s = ctx.as_str(p, v)
        return IterSrc(z3.IntVal(0), simp(z3.Length(s)), lambda q, kk, s=s: Val(V.VStr(simp(z3.SubString(s, kk, 1))), ("str",)), ("str", s.sexpr()))
    raise Unsupported(f"iteration over a value of unknown kind ({_where(node)})")


# ------------------------------------------------------------------------------------------------ analysis helpers
def assigned_names(stmts):
    """Names a block may rebind or mutate in place (syntactic over-approximation)."""
    out = set()

    def root_name(n):
        # obj.field[...] mutations go through the heap (the object is not rebound); only chains of subscripts
        # rooted at a local name rebind that name under value semantics
        while isinstance(n, ast.Subscript):
            n = n.value
        return n.id if isinstance(n, ast.Name) else None

    def tgt(t):
        if isinstance(t, ast.Name):
            out.add(t.id)
        elif isinstance(t, (ast.Tuple, ast.List)):
            for e in t.elts:
                tgt(e)
        elif isinstance(t, ast.Starred):
            tgt(t.value)
        elif isinstance(t, ast.Subscript):
            r = root_name(t)
            if r:
                out.add(r)

    for st in stmts:
        for n in ast.walk(st):
            if isinstance(n, ast.Assign):
                for t in n.targets:
                    tgt(t)
            elif isinstance(n, (ast.AugAssign, ast.AnnAssign)):
                tgt(n.target)
            elif isinstance(n, ast.For):
                tgt(n.target)
            elif isinstance(n, ast.NamedExpr):
                tgt(n.target)
            elif isinstance(n, ast.Call) and isinstance(n.func, ast.Attribute) and \
                    n.func.attr in ("append", "extend", "add", "update", "pop", "sort", "insert", "remove", "discard", "clear"):
                r = root_name(n.func.value)
                if r:
                    out.add(r)
            elif isinstance(n, ast.comprehension):
                pass
    return out


def live_in_names(stmts):
    """Names that may be read in the block before the block assigns them on that path (flow-sensitive over
    if/else; other compound statements are treated conservatively)."""
    live = set()

    def loads(node, defined):
        for n in ast.walk(node):
            if isinstance(n, ast.Name) and isinstance(n.ctx, ast.Load) and n.id not in defined:
                live.add(n.id)

    def targets(t, defined):
        if isinstance(t, ast.Name):
            defined.add(t.id)
        elif isinstance(t, (ast.Tuple, ast.List)):
            for e in t.elts:
                targets(e, defined)
        else:
            loads(t, defined)

    def block(sts, defined):
        for st in sts:
            if isinstance(st, ast.Assign):
                loads(st.value, defined)
                for t in st.targets:
                    targets(t, defined)
            elif isinstance(st, ast.AnnAssign):
                if st.value is not None:
                    loads(st.value, defined)
                    targets(st.target, defined)
            elif isinstance(st, ast.AugAssign):
                loads(st.value, defined)
                if isinstance(st.target, ast.Name):
                    if st.target.id not in defined:
                        live.add(st.target.id)
                else:
                    loads(st.target, defined)
            elif isinstance(st, ast.If):
                loads(st.test, defined)
                d1 = set(defined)
                block(st.body, d1)
                d2 = set(defined)
                block(st.orelse, d2)
                defined |= (d1 & d2)
            elif isinstance(st, (ast.For, ast.While, ast.Try, ast.With, ast.Match)):
                loads(st, defined)       # conservative: nothing inside counts as defined afterwards
            else:
                loads(st, defined)
        return defined
    block(stmts, set())
    return live


def loaded_after(func_node, lineno_end):
    out = set()
    if func_node is None:
        return None
    for n in ast.walk(func_node):
        if isinstance(n, ast.Name) and isinstance(n.ctx, ast.Load) and getattr(n, "lineno", 0) > lineno_end:
            out.add(n.id)
    return out


def mentions(term, consts):
    """Does term mention any of the given constants (by ast id)?"""
    ids = {c.get_id() for c in consts}
    seen = set()
    stack = [term]
    while stack:
        t = stack.pop()
        i = t.get_id()
        if i in seen:
            continue
        seen.add(i)
        if i in ids:
            return True
        stack.extend(t.children())
    return False


def _key(*terms):
    h = hashlib.sha256()
    for t in terms:
        h.update((t if isinstance(t, str) else t.sexpr()).encode())
        h.update(b"|")
    return h.hexdigest()[:12]


class Generic:
    """Generic (arbitrary) pre-state value of a carried location + how to recognise its updates."""

    def __init__(self, name, entry, val, inner, kind):
        self.name, self.entry, self.val, self.inner, self.kind = name, entry, val, inner, kind
        # inner: the fresh constant(s) standing for the accumulated content (Seq / String / Array / V)


def _ite_kind(t, depth=0):
    """Constructor shared by all leaves of an if-then-else term (None if they differ)."""
    if depth > 8:
        return None
    c = smt.ctor(t)
    if c is not None:
        return c
    if z3.is_app(t) and t.decl().kind() == z3.Z3_OP_ITE:
        a, b = _ite_kind(t.arg(1), depth + 1), _ite_kind(t.arg(2), depth + 1)
        return a if a is not None and a == b else None
    return None


def make_generic(ctx, path, name, entry, counter=False):
    """A value of the same kind as `entry` with arbitrary content (counter: an integer even if it starts as a literal)."""
    if not isinstance(entry, Val):
        return None
    t = simp(entry.t)
    c = smt.ctor(t)
    k = c or ctx.kind(entry) or _ite_kind(t)
    tag = f"g_{name}"
    if k == "VList":
        g = ctx.new(tag, smt.SeqV)
        return Generic(name, entry, Val(V.VList(g), entry.ann, own=entry.own, deep=entry.deep, src=entry.src), g, "seq")
    if k == "VStr":
        g = ctx.new(tag, smt.StrS)
        return Generic(name, entry, Val(V.VStr(g), ("str",)), g, "str")
    if k == "VSet":
        sid = ctx.new(tag + "_sid", smt.IntS)
        v = Val(V.VSet(sid, V.fz(entry.t)), entry.ann, own=entry.own, deep=entry.deep, src=entry.src)
        return Generic(name, entry, v, smt.setof(sid), "set")
    if k == "VInt" and (counter or not (c == "VInt" and z3.is_int_value(t.arg(0)))):
        g = ctx.new(tag, smt.IntS)
        return Generic(name, entry, Val(V.VInt(g), ("int",)), g, "int")
    # scalars / None / objects / unknown: arbitrary V (keeps declared shape if it is not a literal)
    g = ctx.newV(tag)
    v = Val(g, None if c in ("VNone", "VBool", "VInt", "VStr") else entry.ann, own=entry.own, deep=entry.deep, src=entry.src)
    return Generic(name, entry, v, g, "any")


def is_literal(v):
    if not isinstance(v, Val):
        return False
    t = simp(v.t)
    c = smt.ctor(t)
    if c == "VNone":
        return True
    if c == "VBool":
        return z3.is_true(t.arg(0)) or z3.is_false(t.arg(0))
    if c == "VInt":
        return z3.is_int_value(t.arg(0))
    if c == "VStr":
        return z3.is_string_value(t.arg(0))
    return False


# ------------------------------------------------------------------------------------------------ the loop engine
class LoopBody:
    """How to run one iteration: bind(path, elemVal) -> [paths]; run(path) -> [(path, Outcome)]."""

    def __init__(self, bind, run, names, where):
        self.bind, self.run, self.names, self.where = bind, run, names, where


def run_loop(ctx, fr, path, src: IterSrc, body: LoopBody, peel=0):
    """Execute a loop over src from the state in `path`. Returns [(path, Outcome)] where Outcome is 'fall'
    (loop finished or broke out), 'ret' or 'raise'."""
    lo, hi = simp(src.lo), simp(src.hi)
    n = simp(hi - lo)
    # concrete small trip count: unroll
    if z3.is_int_value(n) and n.as_long() <= (16 if ctx.spec_mode else UNROLL_MAX):      # specs walk concrete call logs
        return unroll(ctx, fr, path, src, body, lo, n.as_long())
    return summarise(ctx, fr, path, src, body, lo, hi, peel)


def one_iteration(ctx, fr, path, src, body, k):
    """Run the body for index k. Returns [(path, Outcome)]."""
    el = src.elem(path, k)
    outs = []
    for p in body.bind(path, el):
        outs += body.run(p)
    return outs


def unroll(ctx, fr, path, src, body, lo, count):
    done = []
    cur = [path]
    for i in range(count):
        nxt = []
        for p in cur:
            for q, o in one_iteration(ctx, fr, p, src, body, simp(lo + i)):
                if o.kind in ("fall", "continue"):
                    nxt.append(q)
                elif o.kind == "break":
                    done.append((q, Outcome("fall")))
                else:
                    done.append((q, o))
        cur = nxt
    return done + [(p, Outcome("fall")) for p in cur]


def heap_writes(entry_arr, post_arr):
    """Store-chain difference: list of (index term, value term) written on top of entry_arr, or None."""
    def chain(t):
        idxs = []
        while z3.is_app(t) and t.decl().kind() == z3.Z3_OP_STORE:
            idxs.append(t.arg(1))
            t = t.arg(0)
        return t, idxs
    root_p, idx_p = chain(post_arr)
    root_e, idx_e = chain(entry_arr)
    if not z3.eq(root_p, root_e):
        return None
    writes = []
    seen = set()
    for i in idx_p + idx_e:
        if i.get_id() in seen:
            continue
        seen.add(i.get_id())
        a, b = simp(z3.Select(post_arr, i)), simp(z3.Select(entry_arr, i))
        if not z3.eq(a, b):
            writes.append((i, a))
    return writes


def summarise(ctx, fr, path, src, body, lo, hi, peel):
    from .stmt import exec_block
    where = body.where
    # the summary formulas hold for empty ranges too (fold over an empty range is the unit), so the path is
    # not split on emptiness; a provably empty range skips the loop
    d = ctx.decide(path, lo < hi)
    if d is False:
        return [(path, Outcome("fall"))]
    # locals that start as an integer literal: first carried as integer accumulators (k = 0 ... k += 1, summed
    # per-iteration deltas); a local whose updates are not increments falls back to the last-write treatment
    counters = frozenset(n for n in body.names if n in path.env and isinstance(path.env[n], Val)
                         and smt.ctor(simp(path.env[n].t)) == "VInt" and z3.is_int_value(simp(path.env[n].t).arg(0)))
    while True:
        try:
            return _summarise_nonempty(ctx, fr, path, src, body, lo, hi, peel, counters)
        except Unsupported as e:
            m = re.search(r"(?:counter '([A-Za-z_#][A-Za-z0-9_#]*)' update is not an increment|'([A-Za-z_#][A-Za-z0-9_#]*)' changes kind)", str(e))
            name = (m.group(1) or m.group(2)) if m else None
            if name and name in counters:
                counters = counters - {name}
                continue
            raise


def _summarise_nonempty(ctx, fr, path, src, body, lo, hi, peel, counters=frozenset()):
    where = body.where
    names = [n for n in sorted(body.names) if n in path.env and isinstance(path.env[n], Val)]
    # carried heap locations are discovered by a fixpoint over trial executions
    heap_locs = []      # list of (field, oid term)
    const_names = {n for n in names if is_literal(path.env[n])}   # first tried as loop-invariant constants
    was_broken = False
    for _round in range(6):
        K = ctx.new("k", smt.IntS)
        pre = path.fork()
        pre.assume(z3.And(lo <= K, K < hi))
        gens = {}
        for n in names:
            if n in const_names:
                continue
            g = make_generic(ctx, pre, n, path.env[n], counter=(n in counters))
            if g is not None:
                gens[n] = g
                pre.env[n] = g.val
        hgens = {}
        for (field, oid) in heap_locs:
            entry = Val(ctx._select(path, field, oid), ctx.field_ann_guess(field))
            entry = _with_known_contents(ctx, path, entry)
            g = make_generic(ctx, pre, f"{field}", entry)
            hgens[(field, oid.get_id())] = (g, oid, field)
            ctx.write_field(pre, Val(V.VObj(z3.IntVal(0), oid)), field, g.val)
        ghost_gens = {}
        for gname in getattr(body, "ghosts", []):
            if gname in path.ghost:
                g = make_generic(ctx, pre, "ghost_" + (gname if isinstance(gname, str) else "_".join(str(x)[:12] for x in gname)), path.ghost[gname],
                             counter=not isinstance(gname, str))
                ghost_gens[gname] = g
                pre.ghost[gname] = g.val
        base_pc = len(pre.pc)
        base_facts = len(pre.facts)
        entry_heap = dict(pre.heap)
        entry_ghost = dict(pre.ghost)
        outs = one_iteration(ctx, fr, pre, src, body, K)
        # -- check the constant hypothesis
        broken = set()
        for p, o in outs:
            if o.kind in ("fall", "continue", "break"):
                for n in const_names:
                    if n in p.env and isinstance(p.env[n], Val) and not z3.eq(simp(p.env[n].t), simp(path.env[n].t)):
                        broken.add(n)
        # -- discover heap locations / ghosts written
        new_locs = []
        new_ghosts = []
        for p, o in outs:
            for field, arr in p.heap.items():
                e = entry_heap.get(field)
                if e is None:
                    e = z3.Array(f"H0_{field}", smt.IntS, V)
                if z3.eq(arr, e):
                    continue
                ws = heap_writes(e, arr)
                if ws is None:
                    raise Unsupported(f"loop at {where}: heap field {field} updated in an unrecognised way")
                for (oid, _) in ws:
                    oid = simp(oid)
                    if z3.is_int_value(oid) and oid.as_long() >= 1_000_000:
                        continue    # object allocated in this iteration
                    if not any(f == field and z3.eq(o2, oid) for f, o2 in heap_locs + new_locs):
                        all_g = [g.inner for g in gens.values()] + [K]
                        if mentions(oid, all_g):
                            raise Unsupported(f"loop at {where}: heap write to a location that depends on the iteration: {field} @ {str(oid)[:200]}")
                        new_locs.append((field, oid))
            for gname, gv in p.ghost.items():
                if gname not in entry_ghost or not z3.eq(simp(gv.t), simp(entry_ghost[gname].t)):
                    if gname not in ghost_gens and gname not in new_ghosts and gname in path.ghost:
                        new_ghosts.append(gname)
        if broken:
            const_names -= broken
            was_broken = True
            continue
        if new_locs or new_ghosts:
            heap_locs += new_locs
            body.ghosts = getattr(body, "ghosts", []) + new_ghosts
            continue
        break
    else:
        raise Unsupported(f"loop at {where}: carried state did not stabilise")

    # ------------------------------------------------------------------ per-location analysis
    class Loc:
        def __init__(self, key, g, post_of):
            self.key, self.g, self.post_of = key, g, post_of
            # the constant(s) that stand for this location's accumulated state in terms
            self.state_const = g.val.t.arg(0) if g.kind == "set" else g.inner
            self.mk = None

    locs = []
    for n, g in gens.items():
        locs.append(Loc(("env", n), g, lambda p, n=n: p.env[n]))
    for key, (g, oid, field) in hgens.items():
        def post_of(p, field=field, oid=oid, g=g):
            return Val(ctx._select(p, field, oid), g.val.ann, own=g.val.own)
        locs.append(Loc(("heap", field, oid), g, post_of))
    for gname, g in ghost_gens.items():
        locs.append(Loc(("ghost", gname), g, lambda p, gname=gname: p.ghost[gname]))
    state_consts = [L.state_const for L in locs]

    cont_outs = [(p, o) for p, o in outs if o.kind in ("fall", "continue")]
    exit_outs = [(p, o) for p, o in outs if o.kind in ("break", "ret", "raise")]

    def cond_of(p):
        cs = p.pc[base_pc:]
        return simp(z3.And(cs)) if cs else z3.BoolVal(True)

    def facts_of(p):
        return p.facts[base_facts:]

    K0 = z3.Int("K!0")
    # closed forms of already resolved locations at iteration K (value before the K-th iteration)
    closed_subs = []       # (generic term, closed term at K)

    def close(t):
        return simp(z3.substitute(t, *closed_subs)) if closed_subs else t

    def norm(t):
        return simp(z3.substitute(close(t), (K, K0)))

    def unresolved_consts():
        return [L.state_const for L in locs if L.mk is None]

    def set_contents(p, v):
        return simp(ctx.set_arr(p, v))

    def summarise_location(L):
        """Try to give location L a closed form. Returns False if it still depends on unresolved locations."""
        g = L.g
        entry = g.entry
        others = [c for c in unresolved_consts() if c is not L.state_const]
        posts = []
        for p, o in cont_outs:
            c = close(cond_of(p))
            if mentions(c, others) or mentions(c, [L.state_const]):
                # a branch of the body depends on state that has no closed form (yet)
                if mentions(c, [L.state_const]):
                    raise Unsupported(f"loop at {where}: a branch depends on the accumulated value of "
                                      f"'{g.name}' itself (needs an invariant)")
                return False
            posts.append((c, p, L.post_of(p)))
        bfacts = []
        for p, o in outs:
            for f in facts_of(p):
                cf = close(f)
                if not mentions(cf, unresolved_consts()):
                    bfacts.append(norm(z3.Implies(cond_of(p), f)))
        if all(z3.eq(simp(v.t), simp(g.val.t)) for _, _, v in posts):
            L.mk = lambda a, b, q=None, entry=entry: entry
            L.closed_inner = None
            return True
        if g.kind in ("seq", "str"):
            pieces = []
            for c, p, v in posts:
                t = simp(v.t)
                inner_t = t.arg(0) if smt.ctor(t) in ("VList", "VStr") else None
                if inner_t is None:
                    raise Unsupported(f"loop at {where}: '{g.name}' changes kind inside the loop")
                pc = _strip_prefix(inner_t, g.inner, g.kind)
                if pc is None:
                    raise Unsupported(f"loop at {where}: update of '{g.name}' is not an append")
                pc = close(pc)
                if mentions(pc, [L.state_const]):
                    raise Unsupported(f"loop at {where}: appended piece of '{g.name}' depends on '{g.name}' itself")
                if mentions(pc, others):
                    return False
                pieces.append((c, pc, v))
            empty = smt.EMPTY_SEQ if g.kind == "seq" else z3.StringVal("")
            piece = empty
            for c, pc, _ in reversed(pieces):
                piece = z3.If(c, pc, piece)
            piece = norm(piece)
            nm = ("CM_" if g.kind == "seq" else "CS_") + _key(piece)
            sort = smt.SeqV if g.kind == "seq" else smt.StrS
            fn = ctx.func(nm, smt.IntS, smt.IntS, sort)
            unit_len = None
            if g.kind == "seq":
                lens = {_static_len(pc) for _, pc, _ in pieces}
                if len(lens) == 1 and None not in lens and z3.is_true(simp(z3.Or([c for c, _, _ in pieces]))) and not exit_outs:
                    unit_len = lens.pop()
            ctx.folds.setdefault(nm, FoldInfo(nm, g.kind, fn, K0, piece, bfacts, unit_len))
            deep = entry.deep and all(v.own != "borrow" and (v.own != "fresh" or v.deep) for _, _, v in pieces)
            rann = entry.ann
            if g.kind == "seq" and ann_elem(rann) is None:
                for _, _, v in pieces:
                    if ann_elem(v.ann) is not None:
                        rann = v.ann
                        break

            def mk(a, b, q=None, fn=fn, entry=entry, kind=g.kind, deep=deep, rann=rann):
                if kind == "seq":
                    return Val(V.VList(simp(z3.Concat(ctx.as_seq(path, entry), fn(a, b)))), rann, own=entry.own, deep=deep, src=entry.src)
                return Val(V.VStr(simp(z3.Concat(ctx.as_str(path, entry), fn(a, b)))), ("str",))
            L.mk = mk
            inner_at_K = ctx.as_seq(path, mk(lo, K)) if g.kind == "seq" else ctx.as_str(path, mk(lo, K))
            closed_subs.append((g.inner, inner_at_K))
            return True
        if g.kind == "set":
            garr = g.inner
            pieces = []
            for c, p, v in posts:
                arr = set_contents(p, v)
                pc = _strip_set(arr, garr)
                if pc is None:
                    raise Unsupported(f"loop at {where}: update of set '{g.name}' is not a union")
                pc = close(pc)
                if mentions(pc, [L.state_const]):
                    raise Unsupported(f"loop at {where}: piece added to set '{g.name}' depends on the set itself")
                if mentions(pc, others):
                    return False
                pieces.append((c, pc))
            piece = smt.EMPTY_SET
            for c, pc in reversed(pieces):
                piece = z3.If(c, pc, piece)
            piece = norm(piece)
            nm = "CU_" + _key(piece)
            fn = ctx.func(nm, smt.IntS, smt.IntS, smt.SetA)
            ctx.folds.setdefault(nm, FoldInfo(nm, "set", fn, K0, piece, bfacts))
            entry_arr = ctx.set_arr(path, entry)

            def mk(a, b, q=None, fn=fn, entry=entry, entry_arr=entry_arr):
                nv = ctx.mk_set(q if q is not None else path, z3.SetUnion(entry_arr, fn(a, b)), entry.ann, own=entry.own,
                                frozen=False)
                nv.src = entry.src
                nv.deep = entry.deep
                return nv
            L.mk = mk
            closed_subs.append((garr, simp(z3.SetUnion(entry_arr, fn(lo, K)))))
            return True
        if g.kind == "int":
            deltas = []
            for c, p, v in posts:
                t = simp(v.t)
                if _ite_kind(t) != "VInt":
                    raise Unsupported(f"loop at {where}: '{g.name}' changes kind")
                def _delta(x, depth=0):
                    if smt.ctor(x) == "VInt":
                        def _idelta(e, dd=0):
                            e = simp(e)
                            if dd < 8 and z3.is_app(e) and e.decl().kind() == z3.Z3_OP_ITE:
                                return simp(z3.If(e.arg(0), _idelta(e.arg(1), dd + 1), _idelta(e.arg(2), dd + 1)))
                            return simp(e - g.inner)
                        return _idelta(x.arg(0))
                    if depth < 8 and z3.is_app(x) and x.decl().kind() == z3.Z3_OP_ITE:
                        return simp(z3.If(x.arg(0), _delta(x.arg(1), depth + 1), _delta(x.arg(2), depth + 1)))
                    return simp(V.i(x) - g.inner)
                d = close(_delta(t))
                if mentions(d, [L.state_const]):
                    raise Unsupported(f"loop at {where}: counter '{g.name}' update is not an increment")
                if mentions(d, others):
                    return False
                deltas.append((c, d))
            piece = z3.IntVal(0)
            for c, d in reversed(deltas):
                piece = z3.If(c, d, piece)
            piece = norm(piece)
            nm = "SUM_" + _key(piece)
            fn = ctx.func(nm, smt.IntS, smt.IntS, smt.IntS)
            ctx.folds.setdefault(nm, FoldInfo(nm, "int", fn, K0, piece, bfacts))
            e_int = ctx.as_int(path, entry)
            L.mk = lambda a, b, q=None, fn=fn, e_int=e_int: Val(V.VInt(simp(e_int + fn(a, b))), ("int",))
            closed_subs.append((g.inner, simp(e_int + fn(lo, K))))
            return True
        # 'any': last-write pattern  acc' = f(k) if cond(k) else acc
        writes = []

        def split_self(t, cond):
            """t == If(c, X, self) (nested): list of (cond, value) writes; None if self occurs elsewhere."""
            t = simp(t)
            if z3.eq(t, g.inner):
                return []
            if z3.is_app(t) and t.decl().kind() == z3.Z3_OP_ITE:
                a = split_self(t.arg(1), simp(z3.And(cond, t.arg(0))))
                b = split_self(t.arg(2), simp(z3.And(cond, z3.Not(t.arg(0)))))
                if a is None or b is None:
                    return None
                return a + b
            if mentions(t, [L.state_const]):
                return None
            return [(cond, t)]
        for c, p, v in posts:
            parts = split_self(v.t, c)
            if parts is None:
                raise Unsupported(f"loop at {where}: update of '{g.name}' depends on its own previous value (needs an invariant)")
            for pc_, t in parts:
                pc_ = close(pc_)
                t = close(t)
                if mentions(pc_, [L.state_const]) or mentions(t, [L.state_const]):
                    raise Unsupported(f"loop at {where}: update of '{g.name}' depends on its own previous value (needs an invariant)")
                if mentions(t, others) or mentions(pc_, others):
                    return False
                writes.append((pc_, t, v))
        if not writes:
            L.mk = lambda a, b, q=None, entry=entry: entry
            return True
        wcond = norm(z3.Or([c for c, _, _ in writes]))
        wval = None
        ann = None
        first = True
        for c, t, v in reversed(writes):
            wval = t if wval is None else z3.If(c, t, wval)
            ann = v.ann if (first or ann == v.ann) else None
            first = False
        wval = norm(wval)
        nm = "LAST_" + _key(wcond)
        fn = ctx.func(nm, smt.IntS, smt.IntS, smt.IntS)     # greatest index in [a,b) with wcond, or a-1
        ctx.folds.setdefault(nm, FoldInfo(nm, "last", fn, K0, wcond, bfacts))

        def mk(a, b, q=None, fn=fn, wval=wval, entry=entry, ann=ann):
            idx = fn(a, b)
            t = simp(z3.If(idx >= a, z3.substitute(wval, (K0, idx)), entry.t))
            ea = ann if (ann is not None and entry.ann == ann) else None
            return Val(t, ea, own="borrow" if (ann_mutable(ea)) else "imm")
        L.mk = mk
        closed_subs.append((g.inner, mk(lo, K).t))
        return True

    # triangular resolution: a location may depend on locations that already have a closed form
    try:
        progress = True
        while progress and any(L.mk is None for L in locs):
            progress = False
            for L in locs:
                if L.mk is None and summarise_location(L):
                    progress = True
        if any(L.mk is None for L in locs):
            names_ = ", ".join(str(L.key[1]) for L in locs if L.mk is None)
            raise Unsupported(f"loop at {where}: mutually dependent accumulated state ({names_}) needs an invariant")
    except Unsupported:
        # flags that flip in the first iteration (`first = True`): peel one iteration and retry
        if was_broken and peel < 2:
            return peel_once(ctx, fr, path, src, body, lo, hi, peel)
        raise
    for p, o in exit_outs:
        if mentions(close(cond_of(p)), state_consts):
            raise Unsupported(f"loop at {where}: exit condition depends on accumulated state (needs an invariant)")
    exit_cond = simp(z3.Or([close(cond_of(p)) for p, o in exit_outs])) if exit_outs else z3.BoolVal(False)
    body_facts = []
    for p, o in outs:
        for f in facts_of(p):
            cf = close(z3.Implies(cond_of(p), f))
            if not mentions(cf, state_consts):
                body_facts.append(cf)

    def apply_state(q, a, b):
        """Set all carried locations of path q to their value after iterating [a, b)."""
        for L in locs:
            v = L.mk(a, b, q)
            loc = L.key
            if loc[0] == "env":
                q.env[loc[1]] = v
            elif loc[0] == "heap":
                ctx.write_field(q, Val(V.VObj(z3.IntVal(0), loc[2])), loc[1], v)
            else:
                q.ghost[loc[1]] = v

    results = []
    if not exit_outs:
        q = path.fork()
        apply_state(q, lo, hi)
        q.note("for-loop summarised by fold symbols (induction over the iteration range)")
        results.append((q, Outcome("fall")))
        return results
    # ---- loops with exits: FIRST index whose exit condition holds
    ec = simp(z3.substitute(exit_cond, (K, K0)))
    nm = "FIRST_" + _key(ec)
    fn = ctx.func(nm, smt.IntS, smt.IntS, smt.IntS)       # least index in [a,b) with exit cond, or b
    nbf = [simp(z3.substitute(f, (K, K0))) for f in body_facts]
    ctx.folds.setdefault(nm, FoldInfo(nm, "first", fn, K0, ec, nbf))
    F = fn(lo, hi)
    q = path.fork()
    q.assume(z3.And(lo <= F, F <= hi), "FIRST fold range")
    for r, no_exit in ctx.branch(q, F == hi, f"loop.noexit@{where}"):
        if no_exit:
            apply_state(r, lo, hi)
            results.append((r, Outcome("fall")))
            continue
        r.assume(z3.substitute(ec, (K0, F)), "FIRST fold: exit condition holds at the first exit index")
        for f in nbf:
            r.assume(z3.substitute(f, (K0, F)))
        for p, o in exit_outs:
            c = simp(z3.substitute(close(cond_of(p)), (K, F)))
            if not ctx.feasible(r, c):
                continue
            s = r.fork()
            s.pc.append(c)
            apply_state(s, lo, F)
            subs = [(K, F)] + [(a, simp(z3.substitute(b, (K, F)))) for a, b in closed_subs]

            def sub(t, subs=subs):
                return simp(z3.substitute(t, *subs))
            unchanged_sets = {L.key[1] for L in locs if L.key[0] == "env" and L.g.kind == "set"
                              and isinstance(p.env.get(L.key[1]), Val) and z3.eq(simp(p.env[L.key[1]].t), simp(L.g.val.t))}
            for n, v in p.env.items():
                if n in unchanged_sets:
                    continue    # a set the exit iteration did not touch: its state is the closed form at the exit index
                if isinstance(v, Val) and not (isinstance(s.env.get(n), Val) and z3.eq(simp(s.env[n].t), simp(v.t))):
                    if any(L.key == ("env", n) for L in locs) or n not in path.env or not z3.eq(simp(path.env[n].t), simp(v.t)) \
                            if isinstance(path.env.get(n), Val) else True:
                        s.env[n] = Val(sub(v.t), v.ann, own=v.own, deep=v.deep, src=None)
            for field, arr in p.heap.items():
                s.heap[field] = sub(arr)
            for kk, t in p.fresh.items():
                if kk not in path.fresh or not z3.eq(path.fresh[kk], t):
                    s.fresh[kk] = sub(t)
            for sid_, arr in p.sets.items():
                if sid_ not in s.sets:
                    s.sets[sid_] = sub(arr)
            for did_, parts in p.dicts.items():
                if did_ not in s.dicts:
                    s.dicts[did_] = tuple(sub(x) for x in parts)
            for gname, gv in p.ghost.items():
                s.ghost[gname] = Val(sub(gv.t), gv.ann)
            for f in facts_of(p):
                s.assume(sub(f))
            if o.kind == "break":
                results.append((s, Outcome("fall")))
            elif o.kind == "ret":
                v = o.value
                if isinstance(v, Val):
                    v = Val(sub(v.t), v.ann, own=v.own, deep=v.deep)
                results.append((s, Outcome("ret", v)))
            else:
                results.append((s, Outcome("raise", o.value)))
    return results


def _with_known_contents(ctx, path, v):
    return v


def peel_once(ctx, fr, path, src, body, lo, hi, peel):
    """Execute the first iteration concretely, then summarise the rest."""
    results = []
    start = None
    for p0, tv in ctx.branch(path, simp(lo < hi), f"loop.nonempty@{body.where}"):
        if not tv:
            results.append((p0, Outcome("fall")))
        else:
            start = p0
    if start is None:
        return results
    for q, o in one_iteration(ctx, fr, start.fork(), src, body, lo):
        if o.kind in ("fall", "continue"):
            rest = IterSrc(simp(lo + 1), hi, src.elem, src.desc, src.unord)
            q.note("loop: first iteration peeled (flag pattern)")
            results += run_loop(ctx, fr, q, rest, body, peel + 1)
        elif o.kind == "break":
            results.append((q, Outcome("fall")))
        else:
            results.append((q, o))
    return results


def _strip_prefix(t, g, kind):
    """t == g ++ piece  ->  piece ; t == g -> empty ; else None."""
    t = simp(t)
    empty = smt.EMPTY_SEQ if kind == "seq" else z3.StringVal("")
    if z3.eq(t, g):
        return empty
    if z3.is_app(t) and t.decl().kind() == z3.Z3_OP_SEQ_CONCAT:
        ch = t.children()
        if z3.eq(ch[0], g):
            rest = ch[1:]
            return simp(z3.Concat(*rest)) if len(rest) > 1 else rest[0]
    if z3.is_app(t) and t.decl().kind() == z3.Z3_OP_ITE:
        a = _strip_prefix(t.arg(1), g, kind)
        b = _strip_prefix(t.arg(2), g, kind)
        if a is not None and b is not None:
            return simp(z3.If(t.arg(0), a, b))
    return None


def _strip_set(arr, garr):
    """arr == garr | piece -> piece (an array term), else None."""
    arr = simp(arr)
    if z3.eq(arr, garr):
        return smt.EMPTY_SET
    if z3.is_app(arr):
        k = arr.decl().kind()
        if k == z3.Z3_OP_STORE and z3.is_true(arr.arg(2)):
            inner = _strip_set(arr.arg(0), garr)
            if inner is not None:
                return simp(z3.Store(inner, arr.arg(1), True))
        if k == z3.Z3_OP_ARRAY_MAP or arr.decl().name() in ("union",) or k == z3.Z3_OP_SET_UNION:
            parts = arr.children()
            rest = []
            found = False
            for pt in parts:
                s = _strip_set(pt, garr)
                if s is not None and not found:
                    found = True
                    if not z3.eq(s, smt.EMPTY_SET):
                        rest.append(s)
                else:
                    rest.append(pt)
            if found:
                if not rest:
                    return smt.EMPTY_SET
                out = rest[0]
                for r in rest[1:]:
                    out = z3.SetUnion(out, r)
                return simp(out)
        if k == z3.Z3_OP_ITE:
            a = _strip_set(arr.arg(1), garr)
            b = _strip_set(arr.arg(2), garr)
            if a is not None and b is not None:
                return simp(z3.If(arr.arg(0), a, b))
    return None


def _static_len(seq):
    items = smt.unit_items(seq)
    return len(items) if items is not None else None


# ------------------------------------------------------------------------------------------------ for statement
def exec_for(ctx, fr, path, st):
    from .stmt import assign_to, exec_block
    if st.orelse:
        raise Unsupported("for/else")
    # zip_longest over a list that is appended to inside the loop needs iterator semantics: not summarised
    out = []
    names = assigned_names(st.body)
    # loop-local temporaries (always written before they are read, not used after the loop) are not carried
    after = loaded_after(fr.func.node if fr.func is not None else None, getattr(st, "end_lineno", st.lineno))
    if after is not None:
        keep = live_in_names(st.body) | after
        names = {n for n in names if n in keep}
    from .stmt import loop_spec_for, exec_for_with_invariant
    spec = loop_spec_for(ctx, fr, st)
    if spec is not None:
        return exec_for_with_invariant(ctx, fr, path, st, spec)
    for p, src in iter_source(ctx, fr, path, st.iter):
        def bind(q, el, st=st):
            return list(assign_to(ctx, fr, q, st.target, el))

        def run(q, st=st):
            return exec_block(ctx, fr, q, st.body)
        body = LoopBody(bind, run, set(names), f"{st.lineno}")
        res = run_loop(ctx, fr, p, src, body)
        # loop targets are not reliably bound after a summarised loop
        for q, o in res:
            for n in _target_names(st.target):
                if n not in path.env:
                    q.env.pop(n, None)
        out += res
    return out


def _target_names(t):
    if isinstance(t, ast.Name):
        return [t.id]
    if isinstance(t, (ast.Tuple, ast.List)):
        return [n for e in t.elts for n in _target_names(e)]
    return []


# ------------------------------------------------------------------------------------------------ comprehensions
def eval_comprehension(ctx, fr, path, node, as_kind=None):
    """List / set comprehension or generator expression -> list (or set) value. The comprehension is a loop
    with a hidden accumulator."""
    from .stmt import assign_to
    kind = as_kind or ("set" if isinstance(node, ast.SetComp) else "list")
    gens = node.generators
    if any(g.is_async for g in gens):
        raise Unsupported("async comprehension")
    ACC = f"#acc{id(node) % 100000}"

    def run_gen(p, gi):
        """Run generator gi.. on path p (accumulating into p.env[ACC]); returns [(path, Outcome)]."""
        g = gens[gi]
        outs = []
        for q, src in iter_source(ctx, fr, p, g.iter):
            def bind(r, el, g=g):
                return list(assign_to(ctx, fr, r, g.target, el))

            def run(r, g=g, gi=gi):
                res = []
                def conds(r2, i):
                    if i == len(g.ifs):
                        if gi + 1 < len(gens):
                            res.extend(run_gen(r2, gi + 1))
                            return
                        for r3, v in ev(ctx, fr, r2, node.elt):
                            acc = r3.env[ACC]
                            vv = ctx.toV(v)
                            if kind == "set":
                                arr = ctx.set_arr(r3, acc)
                                r3.env[ACC] = ctx.mk_set(r3, z3.Store(arr, vv.t, True), ("set", vv.ann))
                            else:
                                seq = ctx.as_seq(r3, acc)
                                ea = ann_elem(acc.ann) or vv.ann
                                r3.env[ACC] = Val(V.VList(simp(z3.Concat(seq, z3.Unit(vv.t)))), ("list", ea), own="fresh",
                                                  deep=acc.deep and not (vv.own == "borrow" or (vv.own == "fresh" and not vv.deep)))
                            res.append((r3, Outcome("fall")))
                        return
                    for r3, c in ev(ctx, fr, r2, g.ifs[i]):
                        for r4, tv in ctx.branch(r3, ctx.truthy(r3, c), f"comp.if@{node.lineno}"):
                            if tv:
                                conds(r4, i + 1)
                            else:
                                res.append((r4, Outcome("fall")))
                conds(r, 0)
                return res
            body = LoopBody(bind, run, {ACC} | assigned_names([ast.Expr(node.elt)]), f"{node.lineno}")
            outs += run_loop(ctx, fr, q, src, body)
            for r, o in outs:
                for n in _target_names(g.target):
                    if n not in p.env:
                        r.env.pop(n, None)
            if src.unord:
                for r, o in outs:
                    if isinstance(r.env.get(ACC), Val) and kind != "set":
                        r.env[ACC].unord = True
        return outs

    p0 = path
    saved = dict(path.env)
    if kind == "set":
        p0.env[ACC] = ctx.mk_set(p0, smt.EMPTY_SET)
    else:
        p0.env[ACC] = Val(V.VList(smt.EMPTY_SEQ), ("list", None), own="fresh")
    for q, o in run_gen(p0, 0):
        if o.kind != "fall":
            raise Unsupported("comprehension with non-local exit")
        v = q.env.pop(ACC)
        # comprehension variables do not leak
        for g in gens:
            for n in _target_names(g.target):
                if n in saved:
                    q.env[n] = saved[n]
                else:
                    q.env.pop(n, None)
        yield q, v


def eval_iterable_to_list(ctx, fr, path, node, kind, call_node):
    """list(x) / tuple(x) / set(x) / frozenset(x)"""
    if isinstance(node, (ast.GeneratorExp, ast.ListComp, ast.SetComp)):
        for p, v in eval_comprehension(ctx, fr, path, node, as_kind="set" if kind in ("set", "frozenset") else "list"):
            if kind == "tuple":
                v = Val(V.VTuple(ctx.as_seq(p, v)), ("tuple", []), own="imm")
            if kind == "frozenset":
                v = ctx.mk_set(p, ctx.set_arr(p, v), ("frozenset", ann_elem(v.ann)), frozen=True)
            yield p, v
        return
    for p, v in ev(ctx, fr, path, node):
        from .expr import _ConstSet
        if isinstance(v, _ConstSet):
            v = v.v
        k = ctx.kind(v)
        if kind in ("list", "tuple"):
            if k in ("VList", "VTuple") or (v.ann is not None and v.ann[0] == "seq"):
                seq = ctx.as_seq(p, v)
                ea = ann_elem(v.ann)
                nv = Val(V.VList(seq) if kind == "list" else V.VTuple(seq), ("list", ea) if kind == "list" else ("tuple", []),
                         own="fresh", deep=(v.own != "borrow") or not ann_mutable(ea))
                nv.unord = v.unord
                yield p, nv
            elif k == "VSet":
                src = source_of_value(ctx, p, v, call_node)
                perm = ctx.func("set_perm", smt.SetA, smt.SeqV)(ctx.set_arr(p, v))
                ea = ann_elem(v.ann)
                nv = Val(V.VList(perm) if kind == "list" else V.VTuple(perm), ("list", ea), own="fresh", deep=not ann_mutable(ea))
                nv.unord = True
                ctx.setperm_terms.append((perm, ctx.set_arr(p, v)))
                yield p, nv
            elif k == "VDict":
                has, get, keys = ctx.dict_parts(p, v)
                yield p, Val(V.VList(keys), ("list", v.ann[1] if v.ann else None), own="fresh")
            else:
                raise Unsupported(f"{kind}() of unknown kind")
        else:
            if k == "VSet":
                ns = ctx.mk_set(p, ctx.set_arr(p, v), (kind, ann_elem(v.ann)), frozen=(kind == "frozenset"))
                sid0 = simp(V.sid(v.t))
                if z3.is_int_value(sid0) and sid0.as_long() in ctx.set_origin:
                    ctx.set_origin[simp(V.sid(ns.t)).as_long()] = ctx.set_origin[sid0.as_long()]
                yield p, ns
            elif k in ("VList", "VTuple") or (v.ann is not None and v.ann[0] == "seq"):
                seq = ctx.as_seq(p, v)
                ns = ctx.mk_set(p, seq_to_set_arr(ctx, p, seq), (kind, ann_elem(v.ann)), frozen=(kind == "frozenset"))
                ctx.set_origin[simp(V.sid(ns.t)).as_long()] = seq
                yield p, ns
            else:
                raise Unsupported(f"{kind}() of unknown kind")


def seq_to_set_arr(ctx, p, seq):
    items = smt.unit_items(seq)
    if items is not None:
        arr = smt.EMPTY_SET
        for it in items:
            arr = z3.Store(arr, it, True)
        return simp(arr)
    f = ctx.func("seq_elems", smt.SeqV, smt.SetA)
    arr = f(seq)
    p.note("set(xs): uninterpreted element set with membership instances")
    p.assume((z3.Length(seq) == 0) == (arr == smt.EMPTY_SET))
    ctx.seqset_terms.append((arr, seq))
    return arr


# ------------------------------------------------------------------------------------------------ any / all / next / sorted / join
def fold_any_all(ctx, fr, path, name, arg, node):
    from .stmt import assign_to
    if isinstance(arg, (ast.GeneratorExp, ast.ListComp)) and len(arg.generators) == 1:
        g = arg.generators[0]
        FLAG = f"#flag{id(node) % 100000}"
        want = (name == "any")
        for p, src in iter_source(ctx, fr, path, g.iter):
            saved = dict(p.env)
            p.env[FLAG] = ctx.lift(not want)

            def bind(r, el, g=g):
                return list(assign_to(ctx, fr, r, g.target, el))

            def run(r, g=g):
                res = []
                def conds(r2, i):
                    if i == len(g.ifs):
                        for r3, v in ev(ctx, fr, r2, arg.elt):
                            c = ctx.truthy(r3, v)
                            for r4, tv in ctx.branch(r3, c, f"{name}.elt@{node.lineno}"):
                                if tv == want:
                                    r4.env[FLAG] = ctx.lift(want)
                                    res.append((r4, Outcome("break")))
                                else:
                                    res.append((r4, Outcome("fall")))
                        return
                    for r3, c in ev(ctx, fr, r2, g.ifs[i]):
                        for r4, tv in ctx.branch(r3, ctx.truthy(r3, c), "anyall.if"):
                            if tv:
                                conds(r4, i + 1)
                            else:
                                res.append((r4, Outcome("fall")))
                conds(r, 0)
                return res
            body = LoopBody(bind, run, {FLAG}, f"{node.lineno}")
            for q, o in run_loop(ctx, fr, p, src, body):
                v = q.env.pop(FLAG)
                for n in _target_names(g.target):
                    if n in saved:
                        q.env[n] = saved[n]
                    else:
                        q.env.pop(n, None)
                yield q, v
        return
    for p, v in ev(ctx, fr, path, arg):
        seq = ctx.as_seq(p, v)
        items = smt.unit_items(seq)
        if items is None:
            raise Unsupported(f"{name}() over a symbolic list value")
        cs = [ctx.truthy(p, Val(it, ann_elem(v.ann))) for it in items]
        yield p, ctx.boolval(z3.Or(cs) if name == "any" else z3.And(cs))


def builtin_next(ctx, fr, path, node):
    args = node.args
    if len(args) == 2 and isinstance(args[0], ast.GeneratorExp) and len(args[0].generators) == 1 and not node.keywords:
        # next((elt for x in xs if c), default): the element of the first iteration that passes the filters
        from .stmt import assign_to
        gen = args[0]
        g = gen.generators[0]
        RES = f"#next{id(node) % 100000}"
        for p0, dv in ev(ctx, fr, path, args[1]):
            for p, src in iter_source(ctx, fr, p0, g.iter):
                saved = dict(p.env)
                p.env[RES] = ctx.toV(dv) if not isinstance(dv, Val) else dv

                def bind(r, el, g=g):
                    return list(assign_to(ctx, fr, r, g.target, el))

                def run(r, g=g, gen=gen):
                    res = []

                    def conds(r2, i):
                        if i == len(g.ifs):
                            for r3, v in ev(ctx, fr, r2, gen.elt):
                                r3.env[RES] = v
                                res.append((r3, Outcome("break")))
                            return
                        for r3, c in ev(ctx, fr, r2, g.ifs[i]):
                            for r4, tv in ctx.branch(r3, ctx.truthy(r3, c), "next.if"):
                                if tv:
                                    conds(r4, i + 1)
                                else:
                                    res.append((r4, Outcome("fall")))
                    conds(r, 0)
                    return res
                body = LoopBody(bind, run, {RES}, f"{node.lineno}")
                for q, o in run_loop(ctx, fr, p, src, body):
                    v = q.env.pop(RES)
                    for n in _target_names(g.target):
                        if n in saved:
                            q.env[n] = saved[n]
                        else:
                            q.env.pop(n, None)
                    yield q, v
        return
    for p, it in ev(ctx, fr, path, args[0]):
        from .contracts import generator_next
        yield from generator_next(ctx, fr, p, it, node)


def sort_key_term(ctx, fr, p, elem: Val, key_node):
    """Evaluate key(elem) -> Val (must not fork)."""
    from .calls import apply
    if key_node is None:
        return elem
    outs = []
    for q, kf in ev(ctx, fr, p, key_node):
        for r, kv in apply(ctx, fr, q, kf, [elem], {}, key_node):
            outs.append((r, kv))
    if len(outs) != 1:
        raise Unsupported("sort key forks")
    return outs[0][1]


def sorted_term(ctx, fr, p, seq, ann, key_node, node):
    """yields (path, sorted seq term). SORT_<key>(seq) is an uninterpreted permutation of seq ordered by key;
    instances: length preserved, lists of length <= 1 unchanged."""
    items = smt.unit_items(seq)
    if items is not None and len(items) <= 1:
        yield p, seq
        return
    e0 = z3.Const("E!sort", V)
    ea = ann_elem(ann)
    q = p.fork()
    f = ann_fact(e0, ea, ctx.ct)
    if f is not None:
        q.assume(f)
    kv = sort_key_term(ctx, fr, q, Val(e0, ea, own="borrow"), key_node)
    keyname = _key(kv.t)
    fn = ctx.func("SORT_" + keyname, smt.SeqV, smt.SeqV)
    res = fn(seq)
    p.note("sorted/list.sort: uninterpreted stable sort (a permutation of its input ordered by the key)")
    p.assume(z3.Length(res) == z3.Length(seq))
    p.assume(z3.Implies(z3.Length(seq) <= 1, res == seq))
    ctx.sort_terms.append((res, seq, keyname, kv.t, e0))
    yield p, res


def builtin_sorted(ctx, fr, path, node):
    key = None
    for kw in node.keywords:
        if kw.arg == "key":
            key = kw.value
        else:
            raise Unsupported("sorted(reverse=)")
    for p, v in eval_iterable_to_list(ctx, fr, path, node.args[0], "list", node):
        for q, s in sorted_term(ctx, fr, p, ctx.as_seq(p, v), v.ann, key, node):
            nv = Val(V.VList(s), v.ann, own="fresh", deep=v.deep)
            nv.unord = v.unord and key is not None   # a total order on the elements themselves removes order dependence
            yield q, nv


def _seq_piece_to_str(t):
    """Concatenation of the (string) elements of a piece term built from empty / unit / concat / ite."""
    t = simp(t)
    if z3.is_app(t):
        k = t.decl().kind()
        if k == z3.Z3_OP_SEQ_EMPTY:
            return z3.StringVal("")
        if k == z3.Z3_OP_SEQ_UNIT:
            return V.s(t.arg(0))
        if k == z3.Z3_OP_SEQ_CONCAT:
            parts = [_seq_piece_to_str(c) for c in t.children()]
            if any(x is None for x in parts):
                return None
            return z3.Concat(*parts)
        if k == z3.Z3_OP_ITE:
            a, b = _seq_piece_to_str(t.arg(1)), _seq_piece_to_str(t.arg(2))
            if a is None or b is None:
                return None
            return z3.If(t.arg(0), a, b)
    return None


def fold_join(ctx, p, sep, seq):
    """"".join(CM_h(lo,hi)) -> CS fold over the same pieces (join with the empty separator is concatenation)."""
    if smt.str_lit(sep) != "":
        return None
    seq = simp(seq)
    if not (z3.is_app(seq) and seq.decl().name() in ctx.folds):
        return None
    fi = ctx.folds[seq.decl().name()]
    if fi.kind != "seq":
        return None
    sp = _seq_piece_to_str(fi.piece)
    if sp is None:
        return None
    sp = simp(sp)
    nm = "CS_" + _key(sp)
    fn = ctx.func(nm, smt.IntS, smt.IntS, smt.StrS)
    ctx.folds.setdefault(nm, FoldInfo(nm, "str", fn, fi.K0, sp, fi.facts))
    p.note("''.join(pieces) is the concatenation fold of the pieces")
    return fn(seq.arg(0), seq.arg(1))
