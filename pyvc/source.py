"""Source index: the verified text is re-read from the working tree on every run.

Mechanical extraction only: docstrings, type annotations of locals/parameters and comments are
dropped (annotations of *class fields* are kept as the declared shape of model objects and are
reported as an assumption); everything else is executed symbolically as written.
"""
from __future__ import annotations

import ast
import hashlib
import os
from dataclasses import dataclass, field

REPO_SRC = os.environ.get("PYVC_REPO_SRC", "/repo/src")
SPEC_ROOT = os.path.dirname(os.path.dirname(os.path.abspath(__file__)))  # /verif


@dataclass
class ModuleInfo:
    name: str
    path: str
    tree: ast.Module
    sha256: str
    text: str
    defs: dict = field(default_factory=dict)       # top-level name -> ast node (FunctionDef/ClassDef/Assign value)
    imports: dict = field(default_factory=dict)    # local name -> (module, attr|None)
    is_spec: bool = False


class SourceIndex:
    def __init__(self, overrides: dict[str, str] | None = None):
        self.modules: dict[str, ModuleInfo] = {}
        self.overrides = overrides or {}   # module name -> source text (seeded mutants, in memory)

    def _path_for(self, modname: str):
        parts = modname.split(".")
        if parts[0] == "safeds_stubgen":
            base = os.path.join(REPO_SRC, *parts)
        elif parts[0] in ("specs",):
            base = os.path.join(SPEC_ROOT, *parts)
        else:
            return None
        if os.path.isdir(base) and os.path.exists(os.path.join(base, "__init__.py")):
            return os.path.join(base, "__init__.py")
        if os.path.exists(base + ".py"):
            return base + ".py"
        return None

    def has(self, modname: str) -> bool:
        return modname in self.modules or modname in self.overrides or self._path_for(modname) is not None

    def module(self, modname: str) -> ModuleInfo:
        if modname in self.modules:
            return self.modules[modname]
        path = self._path_for(modname)
        if modname in self.overrides:
            text = self.overrides[modname]
            path = path or f"<override {modname}>"
        else:
            if path is None:
                raise KeyError(modname)
            with open(path, encoding="utf-8") as f:
                text = f.read()
        tree = ast.parse(text)
        mi = ModuleInfo(modname, path, tree, hashlib.sha256(text.encode()).hexdigest(), text,
                        is_spec=modname.startswith("specs"))
        is_pkg = path.endswith("__init__.py")
        self._index(mi, is_pkg)
        self.modules[modname] = mi
        return mi

    def _index(self, mi: ModuleInfo, is_pkg: bool):
        def walk(stmts):
            for st in stmts:
                if isinstance(st, (ast.FunctionDef, ast.ClassDef)):
                    mi.defs[st.name] = st
                elif isinstance(st, ast.Assign) and len(st.targets) == 1 and isinstance(st.targets[0], ast.Name):
                    mi.defs[st.targets[0].id] = st
                elif isinstance(st, ast.AnnAssign) and isinstance(st.target, ast.Name) and st.value is not None:
                    mi.defs[st.target.id] = st
                elif isinstance(st, ast.Import):
                    for a in st.names:
                        if a.asname:
                            mi.imports[a.asname] = (a.name, None)
                        else:
                            mi.imports[a.name.split(".")[0]] = (a.name.split(".")[0], None)
                elif isinstance(st, ast.ImportFrom):
                    base = st.module or ""
                    if st.level:
                        pkg = mi.name.split(".")
                        if not is_pkg:
                            pkg = pkg[:-1]
                        if st.level > 1:
                            pkg = pkg[: -(st.level - 1)]
                        base = ".".join(pkg + ([st.module] if st.module else []))
                    for a in st.names:
                        mi.imports[a.asname or a.name] = (base, a.name)
                elif isinstance(st, ast.If):
                    # `if TYPE_CHECKING:` imports are for annotations only; other module-level ifs are indexed
                    t = st.test
                    if isinstance(t, ast.Name) and t.id == "TYPE_CHECKING":
                        walk_typing(st.body)
                    else:
                        walk(st.body)
                        walk(st.orelse)
                elif isinstance(st, ast.Try):
                    walk(st.body)

        def walk_typing(stmts):
            for st in stmts:
                if isinstance(st, ast.ImportFrom):
                    base = st.module or ""
                    if st.level:
                        pkg = mi.name.split(".")
                        if not is_pkg:
                            pkg = pkg[:-1]
                        if st.level > 1:
                            pkg = pkg[: -(st.level - 1)]
                        base = ".".join(pkg + ([st.module] if st.module else []))
                    for a in st.names:
                        mi.imports.setdefault(a.asname or a.name, (base, a.name))

        walk(mi.tree.body)

    def resolve(self, modname: str, name: str, _depth=0):
        """Resolve a global name of module `modname` to ('def', ModuleInfo, node) / ('module', name) /
        ('extern', module, attr) / None."""
        if _depth > 8:
            return None
        mi = self.module(modname)
        if name in mi.defs:
            return ("def", mi, mi.defs[name])
        if name in mi.imports:
            base, attr = mi.imports[name]
            if attr is None:
                return ("module", base)
            if self.has(base):
                sub = self.module(base)
                if attr in sub.defs or attr in sub.imports:
                    return self.resolve(base, attr, _depth + 1)
                if self.has(base + "." + attr):
                    return ("module", base + "." + attr)
                return None
            return ("extern", base, attr)
        return None

    def find_function(self, target: str):
        """target = 'pkg.mod:func' or 'pkg.mod:Class.method' -> (ModuleInfo, class node|None, function node)."""
        modname, qual = target.split(":")
        mi = self.module(modname)
        parts = qual.split(".")
        node = None
        body = mi.tree.body
        cls = None
        for i, p in enumerate(parts):
            found = None
            for st in body:
                if isinstance(st, (ast.FunctionDef, ast.ClassDef)) and st.name == p:
                    found = st
            if found is None:
                raise KeyError(f"{target}: {p} not found")
            if isinstance(found, ast.ClassDef) and i < len(parts) - 1:
                cls = found
            body = found.body
            node = found
        return mi, cls, node


def strip_docstring(body):
    if body and isinstance(body[0], ast.Expr) and isinstance(body[0].value, ast.Constant) and isinstance(body[0].value.value, str):
        return body[1:]
    return body


def node_sha(node) -> str:
    return hashlib.sha256(ast.dump(node, include_attributes=False).encode()).hexdigest()[:16]
