"""pyvc: verification-condition generator for a Python subset (sidecar contracts, z3/cvc5 back ends)."""
