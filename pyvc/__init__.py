"""pyvc: verification-condition generator for a Python subset (sidecar contracts, z3/cvc5 back ends)."""

import os as _os

# where this checkout of the verification machinery lives (normally /verif; a snapshot elsewhere works as well)
HOME = _os.environ.get("PYVC_HOME") or _os.path.dirname(_os.path.dirname(_os.path.abspath(__file__)))
FIXTURES = _os.path.join(HOME, "fixtures", "pkgs")
