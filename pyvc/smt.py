"""SMT universe of the pyvc verifier: one sort V for every Python value.

Immutable scalars, lists, tuples and constant-key records are by-value constructors; sets,
symbolic-key dicts and objects are references (ids) whose contents are given by uninterpreted
functions / heap arrays kept in the symbolic state.
"""
from __future__ import annotations

import z3

Z = z3
BoolS, IntS, StrS = z3.BoolSort(), z3.IntSort(), z3.StringSort()

_V = z3.Datatype("V")
_Vs = z3.DatatypeSort("V")
_V.declare("VNone")
_V.declare("VBool", ("b", BoolS))
_V.declare("VInt", ("i", IntS))
_V.declare("VStr", ("s", StrS))
_V.declare("VFloat", ("fid", IntS))          # opaque float token
_V.declare("VList", ("l", z3.SeqSort(_Vs)))
_V.declare("VTuple", ("tp", z3.SeqSort(_Vs)))
_V.declare("VRec", ("rk", z3.SeqSort(_Vs)), ("rv", z3.SeqSort(_Vs)))   # dict display with constant keys
_V.declare("VSet", ("sid", IntS), ("fz", BoolS))   # contents: setof(sid); fz: frozenset
_V.declare("VDict", ("did", IntS))           # contents: dhas/dget/dkeys(did)
_V.declare("VObj", ("cls", IntS), ("oid", IntS))
_V.declare("VCls", ("cid", IntS))
_V.declare("VFun", ("fnid", IntS))
V = _V.create()
SeqV = z3.SeqSort(V)
SetA = z3.ArraySort(V, BoolS)
MapA = z3.ArraySort(V, V)

# contents of reference values
setof = z3.Function("setof", IntS, SetA)
setperm = z3.Function("setperm", IntS, SeqV)       # iteration order of a set: arbitrary fixed permutation
dhas = z3.Function("dhas", IntS, SetA)
dget = z3.Function("dget", IntS, MapA)
dkeys = z3.Function("dkeys", IntS, SeqV)
# opaque records (results of to_dict-like callees)
rget = z3.Function("rget", V, V, V)
rhas = z3.Function("rhas", V, V, BoolS)
# Python == on values whose SMT equality is too strong (sets, objects with __eq__)
pyeq = z3.Function("pyeq", V, V, BoolS)
pyhash = z3.Function("pyhash", V, IntS)
clsname = z3.Function("clsname", IntS, StrS)

NONE = V.VNone
EMPTY_SEQ = z3.Empty(SeqV)
EMPTY_SET = z3.K(V, z3.BoolVal(False))


def S(x: str):
    return V.VStr(z3.StringVal(x))


def I(x: int):
    return V.VInt(z3.IntVal(x))


def B(x: bool):
    return V.VBool(z3.BoolVal(x))


def simp(t):
    return z3.simplify(t)


CTORS = ["VNone", "VBool", "VInt", "VStr", "VFloat", "VList", "VTuple", "VRec", "VSet", "VDict", "VObj", "VCls", "VFun"]
_CTOR_DECLS = {V.constructor(i).name(): V.constructor(i) for i in range(V.num_constructors())}


def ctor(t):
    """Name of the constructor at the head of t, or None if t is not a constructor application."""
    if z3.is_app(t) and t.sort() == V:
        n = t.decl().name()
        if n in _CTOR_DECLS and t.decl().kind() == z3.Z3_OP_DT_CONSTRUCTOR:
            return n
    return None


def is_(name, t):
    return getattr(V, "is_" + name)(t)


AT = z3.Function("AT", SeqV, IntS, V)   # element access kept uninterpreted in terms; defined at solve time


def nth(seq, i):
    """seq[i] for 0 <= i < len(seq). Concrete positions of concrete lists are resolved; otherwise the access
    stays the uninterpreted application AT(seq, i) (z3's simplifier would expand seq.nth into bounds-guarded
    ite-terms); prove.at_instances adds AT(s,i) == seq.nth(s,i) for in-range i."""
    seq = simp(seq)
    i = simp(i) if not isinstance(i, int) else z3.IntVal(i)
    items = unit_items(seq)
    if items is not None and z3.is_int_value(i) and 0 <= i.as_long() < len(items):
        return items[i.as_long()]
    if z3.is_app(seq) and seq.decl().kind() == z3.Z3_OP_SEQ_EXTRACT:
        # element i of an in-bounds slice b[off:off+ln] is element off+i of b (accesses are created in range)
        return nth(seq.arg(0), simp(seq.arg(1) + i))
    return AT(seq, i)


def seq_of_list(items):
    if not items:
        return EMPTY_SEQ
    if len(items) == 1:
        return z3.Unit(items[0])
    return z3.Concat(*[z3.Unit(i) for i in items])


def unit_items(seq):
    """If seq is syntactically a concatenation of units, return the list of element terms; else None."""
    seq = simp(seq)
    if z3.is_app(seq):
        k = seq.decl().kind()
        if k == z3.Z3_OP_SEQ_EMPTY:
            return []
        if k == z3.Z3_OP_SEQ_UNIT:
            return [seq.arg(0)]
        if k == z3.Z3_OP_SEQ_CONCAT:
            out = []
            for a in seq.children():
                sub = unit_items(a)
                if sub is None:
                    return None
                out += sub
            return out
        if k == z3.Z3_OP_ITE:
            # the simplifier hoists ite out of unit lists: [.., ite(c,a,b), ..] == ite(c, [..,a,..], [..,b,..])
            a, b = unit_items(seq.arg(1)), unit_items(seq.arg(2))
            if a is not None and b is not None and len(a) == len(b):
                c = seq.arg(0)
                return [x if z3.eq(x, y) else z3.If(c, x, y) for x, y in zip(a, b)]
    return None


def str_lit(t):
    """Python str if t (String sort) is a literal."""
    t = simp(t)
    if z3.is_string_value(t):
        return t.as_string()
    return None


def fresh_name(prefix, counter=[0]):
    counter[0] += 1
    return f"{prefix}!{counter[0]}"
