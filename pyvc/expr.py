"""Expression evaluation. Every evaluator is a generator of (path, value): short-circuit operators,
calls and conditional expressions may fork the path."""
from __future__ import annotations

import ast

import z3

from . import smt
from .smt import V, simp
from .values import (Bound, Builtin, ClassRef, Closure, ExtFunc, FuncRef, ModRef, SpecConst, Unsupported, Val,
                     ann_elem, ann_fact, ann_mutable)


class Frame:
    def __init__(self, mi, func=None, cls=None, depth=0, spec=False):
        self.mi = mi
        self.func = func
        self.cls = cls          # ClassInfo of the enclosing class (for name mangling)
        self.depth = depth
        self.spec = spec
        self.old_path = None    # pre-state for old(...)
        self.result = None


def mangle(fr, attr):
    if fr.cls is not None and attr.startswith("__") and not attr.endswith("__"):
        return f"_{fr.cls.name.lstrip('_')}{attr}"
    return attr


def ev(ctx, fr, path, node):
    fn = _DISPATCH.get(type(node))
    if fn is None:
        raise Unsupported(f"expression {type(node).__name__} at line {getattr(node, 'lineno', '?')}")
    yield from fn(ctx, fr, path, node)


def ev_list(ctx, fr, path, nodes):
    """Evaluate expressions left to right; yields (path, [values])."""
    def go(p, i, acc):
        if i == len(nodes):
            yield p, acc
            return
        for q, v in ev(ctx, fr, p, nodes[i]):
            yield from go(q, i + 1, acc + [v])
    yield from go(path, 0, [])


def eval_const_expr(ctx, mi, node):
    """Module-level constant: evaluated once in an empty path (must not fork)."""
    fr = Frame(mi)
    p = ctx.new_path()
    outs = list(ev(ctx, fr, p, node))
    if len(outs) != 1:
        raise Unsupported("module constant forks")
    q, v = outs[0]
    if isinstance(v, Val):
        k = simp(v.t)
        c = smt.ctor(k)
        if c == "VSet":
            # keep contents with the constant
            arr = ctx.set_arr(q, v)
            return _ConstSet(v, arr)
    return v


class _ConstSet:
    """A module-level set constant: membership only."""
    def __init__(self, v, arr):
        self.v, self.arr = v, arr


# ------------------------------------------------------------------------------------------------ atoms
def e_Constant(ctx, fr, path, node):
    v = node.value
    if v is Ellipsis:
        yield path, ctx.lift(None)
        return
    yield path, ctx.lift(v)


BUILTIN_NAMES = {"len", "str", "int", "float", "bool", "list", "set", "dict", "tuple", "frozenset", "isinstance",
                 "hasattr", "getattr", "sorted", "any", "all", "enumerate", "zip", "range", "hash", "next", "type",
                 "repr", "min", "max", "sum", "print", "iter", "reversed", "issubclass", "callable", "id", "abs",
                 "ValueError", "TypeError", "KeyError", "LookupError", "AttributeError", "AssertionError",
                 "IndexError", "Exception", "NotImplemented", "StopIteration", "object", "super", "setattr"}


def e_Name(ctx, fr, path, node):
    n = node.id
    if n in path.env:
        yield path, path.env[n]
        return
    if n == "result" and fr.spec and fr.result is not None:
        yield path, fr.result
        return
    if fr.spec and n in path.ghost:
        yield path, path.ghost[n]        # ghost variables of the contract (LOG, EXT) are readable in spec code
        return
    g = ctx.global_lookup(fr.mi, n, path)
    if g is None and getattr(fr, "fallback_mi", None) is not None:
        g = ctx.global_lookup(fr.fallback_mi, n, path)
    if g is not None:
        yield path, g
        return
    if n in ("True", "False", "None"):
        yield path, ctx.lift({"True": True, "False": False, "None": None}[n])
        return
    if n == "NotImplemented":
        yield path, Val(V.VObj(z3.IntVal(ctx.ct.notimpl.cid), z3.IntVal(1)), ("obj", ctx.ct.notimpl))
        return
    if "builtins." + n in ctx.ct.by_qual and n not in ("object",):
        yield path, ClassRef(ctx.ct.by_qual["builtins." + n])
        return
    if n in BUILTIN_NAMES:
        yield path, Builtin(n)
        return
    raise Unsupported(f"unbound name {n} (line {node.lineno})")


def e_Attribute(ctx, fr, path, node):
    for p, o in ev(ctx, fr, path, node.value):
        yield from get_attr(ctx, fr, p, o, node.attr, node)


def get_attr(ctx, fr, path, o, attr, node=None):
    attr_m = mangle(fr, attr)
    if isinstance(o, ModRef):
        yield path, ctx.module_attr(o, attr)
        return
    if isinstance(o, ClassRef):
        ci = o.info
        if attr == "__name__":
            yield path, ctx.lift(ci.name)
            return
        if ci.is_enum:
            for mn, _ in ci.enum_members:
                if mn == attr:
                    yield path, ctx.enum_member(ci, mn)
                    return
        m = ci.lookup(attr)
        if m is not None:
            if m.kind == "classmethod":
                yield path, Bound(o, m)
            else:
                yield path, m
            return
        cc = ci.lookup_const(attr)
        if cc is not None:
            owner, expr = cc
            yield from ev(ctx, Frame(owner.mi, cls=owner), path, expr)
            return
        if ci.extern is not None and hasattr(ci.extern, attr):
            nat = getattr(ci.extern, attr)
            if isinstance(nat, (int, str, bool)):
                yield path, ctx.lift(nat)
                return
            yield path, ExtFunc(f"{ci.qualname}.{attr}")
            return
        raise Unsupported(f"class attribute {ci.name}.{attr}")
    if isinstance(o, Bound) and attr == "__name__":
        raise Unsupported("function __name__")
    if isinstance(o, _const_set_cls()):
        yield path, Bound(o.v, attr)
        return
    if isinstance(o, SpecConst):
        yield path, Bound(o, attr)
        return
    if not isinstance(o, Val):
        raise Unsupported(f"attribute {attr} of {type(o).__name__}")
    k = ctx.kind(o)
    if k == "VObj":
        yield from obj_attr(ctx, fr, path, o, attr_m, node)
        return
    if k == "VCls":
        t = simp(o.t)
        if attr == "__name__":
            cid = simp(V.cid(t))
            if z3.is_int_value(cid):
                yield path, ctx.lift(ctx.ct.by_cid[cid.as_long()].name)
            else:
                yield path, Val(V.VStr(smt.clsname(cid)), ("str",))
            return
        raise Unsupported(f"attribute {attr} of class value")
    if k in ("VStr", "VList", "VTuple", "VSet", "VDict", "VRec"):
        yield path, Bound(o, attr)
        return
    if k is None:
        # dynamically typed value: object attribute access requires an object
        t = simp(o.t)
        ctx.safety(path, V.is_VObj(t), f"'.{attr}' on a non-object (None?)", where=_where(node))
        yield from obj_attr(ctx, fr, path, o, attr_m, node)
        return
    raise Unsupported(f"attribute {attr} on {k}")


def _const_set_cls():
    return _ConstSet


def _where(node):
    return f"line {getattr(node, 'lineno', '?')}" if node is not None else ""


def possible_classes(ctx, path, o):
    """Classes an object value may have (closed world over the registered class table), or None."""
    t = simp(o.t)
    cid = simp(V.cls(t))
    if z3.is_int_value(cid):
        return [ctx.ct.by_cid[cid.as_long()]]
    if o.ann is not None and o.ann[0] == "obj":
        return o.ann[1].instance_classes()
    if o.ann is not None and o.ann[0] == "union":
        out = []
        for a in o.ann[1]:
            if a[0] == "obj":
                out += [c for c in a[1].instance_classes() if c not in out]
        return out or None
    return None


def obj_attr(ctx, fr, path, o, attr, node=None):
    t = simp(o.t)
    if attr == "__class__":
        yield path, Val(V.VCls(simp(V.cls(t))))
        return
    classes = possible_classes(ctx, path, o)
    if classes is None:
        # unknown class: plain field read
        yield path, ctx.read_field(path, o, attr, None)
        return
    # dynamic dispatch through an abstract contract: if a common ancestor declares the method and a contract is
    # registered for it, the call is checked against that contract (each override is verified against it)
    if len(classes) > 1 and ctx.registry is not None:
        common = None
        for anc in classes[0].mro():
            if attr in anc.methods and all(anc in c.mro() for c in classes):
                common = anc
        if common is not None and ctx.registry.lookup(common.methods[attr].target) is not None \
                and common.methods[attr].kind == "method":
            yield path, Bound(o, common.methods[attr])
            return
    # group classes by how they resolve the attribute
    groups = {}
    for ci in classes:
        m = ci.lookup(attr)
        if m is not None:
            key = ("m", id(m.node))
            groups.setdefault(key, (m, []))[1].append(ci)
            continue
        if ci.is_enum and attr in ("name", "value"):
            groups.setdefault(("enum", ci.cid), (ci, []))[1].append(ci)
            continue
        cc = ci.lookup_const(attr)
        if cc is not None and attr not in ci.all_fields():
            groups.setdefault(("c", id(cc[1])), (cc, []))[1].append(ci)
            continue
        ann = ci.all_fields().get(attr)
        if ann is None:
            ann = ctx.extern_field_ann(ci, attr)
        if ann is None and ci.extern is not None:
            nat = getattr(ci.extern, attr, None)
            if nat is not None and callable(nat) and not isinstance(nat, property):
                # method of an external class: called as an external function of (receiver, arguments)
                owner = next((c for c in ci.mro() if c.extern is not None and attr in vars(c.extern)), ci)
                groups.setdefault(("x", owner.qualname + "." + attr), (ExtFunc(owner.qualname + "." + attr), []))[1].append(ci)
                continue
        groups.setdefault(("f", repr(ann)), (ann, []))[1].append(ci)
    if ctx.spec_mode and len(groups) > 1:
        # contract code is total on its stated domain: an attribute read in a spec is on an object that has it
        keep = {k: g for k, g in groups.items() if not (k[0] == "f" and not any(ctx.class_has_attr(c, attr) for c in g[1]))}
        if keep and len(keep) < len(groups):
            cid0 = V.cls(t)
            path.assume(z3.Or([cid0 == c.cid for _, cis in keep.values() for c in cis]), "spec attribute read is defined")
            groups = keep
    if len(groups) == 1:
        (key, (what, _)), = groups.items()
        yield from _attr_case(ctx, fr, path, o, attr, key, what)
        return
    cid = V.cls(t)
    for key, (what, cis) in groups.items():
        cond = z3.Or([cid == c.cid for c in cis])
        if not ctx.feasible(path, cond) or ctx.decide(path, cond) is False:
            continue
        q = path.fork()
        q.pc.append(simp(cond))
        yield from _attr_case(ctx, fr, q, o, attr, key, what)


def _attr_case(ctx, fr, path, o, attr, key, what):
    if key[0] == "x":
        yield path, Bound(o, what)
        return
    if key[0] == "m":
        m = what
        if m.kind == "property":
            from .calls import call_function
            yield from call_function(ctx, fr, path, m, [o], {})
        elif m.kind == "staticmethod":
            yield path, m
        elif m.kind == "classmethod":
            yield path, Bound(Val(V.VCls(simp(V.cls(o.t)))), m)
        else:
            yield path, Bound(o, m)
    elif key[0] == "enum":
        ci = what
        # name / value of an enum member: table over the members
        t = o.t
        res = None
        for mn, mv in reversed(ci.enum_members):
            mem = ctx.enum_member(ci, mn).t
            if attr == "name":
                val = smt.S(mn)
            else:
                val = _enum_value(ctx, ci, mv)
            res = val if res is None else z3.If(t == mem, val, res)
        yield path, Val(simp(res), ("str",) if attr == "name" else None)
    elif key[0] == "c":
        owner, expr = what
        yield from ev(ctx, Frame(owner.mi, cls=owner), path, expr)
    else:
        yield path, ctx.read_field(path, o, attr, what)


def _enum_value(ctx, ci, mv):
    if isinstance(mv, ast.Constant):
        return ctx.lift(mv.value).t
    if isinstance(mv, (int, str)):
        return ctx.lift(mv).t
    return ctx.lift(repr(mv)).t


# ------------------------------------------------------------------------------------------------ operators
_PURE_CALLS = {"isinstance", "len", "hasattr", "startswith", "endswith", "is_internal", "str", "bool", "int"}


def is_pure_expr(node):
    """Syntactically side-effect free and cheap: may be evaluated without forking under a guard."""
    for n in ast.walk(node):
        if isinstance(n, ast.Call):
            f = n.func
            nm = f.id if isinstance(f, ast.Name) else (f.attr if isinstance(f, ast.Attribute) else None)
            if nm not in _PURE_CALLS:
                return False
        elif isinstance(n, (ast.NamedExpr, ast.Lambda, ast.ListComp, ast.SetComp, ast.GeneratorExp, ast.DictComp,
                            ast.Await, ast.Yield, ast.YieldFrom)):
            return False
    return True


def ev_guarded(ctx, fr, path, node, guard):
    """Evaluate a pure expression on `path` under an extra guard (for safety obligations) without forking.
    Returns the value, or None if the evaluation forks or changes state."""
    q = path.fork()
    if guard is not None:
        q.pc.append(guard)
    n_ob = len(ctx.obligations)
    try:
        outs = list(ev(ctx, fr, q, node))
    except Unsupported:
        del ctx.obligations[n_ob:]
        return None
    if len(outs) != 1 or outs[0][0] is not q:
        del ctx.obligations[n_ob:]
        return None
    r, v = outs[0]
    if len(r.pc) != len(q.pc):
        del ctx.obligations[n_ob:]
        return None
    # facts learned (typing, builtin axioms) are kept, guarded
    for f in r.facts[len(path.facts):]:
        path.facts.append(f if guard is None else z3.Implies(guard, f))
    for k, a in r.sets.items():
        path.sets.setdefault(k, a)
    for k, d in r.dicts.items():
        path.dicts.setdefault(k, d)
    return v


def e_BoolOp(ctx, fr, path, node):
    is_or = isinstance(node.op, ast.Or)
    if all(is_pure_expr(v) for v in node.values):
        # merged evaluation: no fork; later operands are evaluated under the guard of the earlier ones
        guard = None
        terms = []
        ok = True
        for vnode in node.values:
            v = ev_guarded(ctx, fr, path, vnode, guard)
            if v is None or not isinstance(v, Val) or ctx.kind(v) != "VBool":
                ok = False
                break
            c = ctx.truthy(path, v)
            terms.append(c)
            g = simp(z3.Not(c)) if is_or else c
            guard = g if guard is None else simp(z3.And(guard, g))
        if ok:
            yield path, ctx.boolval(z3.Or(terms) if is_or else z3.And(terms))
            return

    def go(p, vals):
        for q, v in ev(ctx, fr, p, vals[0]):
            if len(vals) == 1:
                yield q, v
                continue
            c = ctx.truthy(q, v)
            for r, tv in ctx.branch(q, c, f"boolop@{node.lineno}"):
                if tv == is_or:
                    yield r, v
                else:
                    yield from go(r, vals[1:])
    yield from go(path, node.values)


def e_UnaryOp(ctx, fr, path, node):
    for p, v in ev(ctx, fr, path, node.operand):
        if isinstance(node.op, ast.Not):
            yield p, ctx.boolval(z3.Not(ctx.truthy(p, v)))
        elif isinstance(node.op, ast.USub):
            yield p, Val(V.VInt(simp(-ctx.as_int(p, v))), ("int",))
        elif isinstance(node.op, ast.UAdd):
            yield p, v
        else:
            raise Unsupported("unary op")


def e_BinOp(ctx, fr, path, node):
    for p, (a, b) in ev_list(ctx, fr, path, [node.left, node.right]):
        yield from binop(ctx, fr, p, node.op, a, b, node)


def binop(ctx, fr, p, op, a, b, node=None):
    if isinstance(op, ast.Add):
        ka, kb = ctx.kind(a), ctx.kind(b)
        if ka == "VStr" or kb == "VStr":
            yield p, Val(V.VStr(simp(z3.Concat(ctx.as_str(p, a), ctx.as_str(p, b)))), ("str",))
        elif ka in ("VList",) or kb in ("VList",):
            sa, sb = ctx.as_seq(p, a), ctx.as_seq(p, b)
            yield p, Val(V.VList(simp(z3.Concat(sa, sb))), a.ann or b.ann, own="fresh",
                         deep=a.own != "borrow" and b.own != "borrow")
        elif ka == "VTuple" or kb == "VTuple":
            yield p, Val(V.VTuple(simp(z3.Concat(ctx.as_seq(p, a), ctx.as_seq(p, b)))), ("tuple", []))
        elif ka in ("VInt", "VBool") and kb in ("VInt", "VBool"):
            yield p, Val(V.VInt(simp(ctx.as_int(p, a) + ctx.as_int(p, b))), ("int",))
        else:
            # operands whose kind is hidden behind an if-then-else with integer leaves (k = 0 ... k += 1 after a join)
            from .loops import _ite_kind
            if {_ite_kind(simp(a.t)) or ka, _ite_kind(simp(b.t)) or kb} <= {"VInt", "VBool"}:
                yield p, Val(V.VInt(simp(ctx.as_int(p, a) + ctx.as_int(p, b))), ("int",))
                return
            raise Unsupported(f"'+' on operands of unknown type ({_where(node)}): {ka}/{kb} {str(simp(a.t))[:80]} + {str(simp(b.t))[:80]}")
        return
    if isinstance(op, ast.Sub):
        ka = ctx.kind(a)
        if ka == "VSet":
            arr = z3.SetDifference(ctx.set_arr(p, a), ctx.set_arr(p, b))
            yield p, ctx.mk_set(p, arr, a.ann)
            return
        yield p, Val(V.VInt(simp(ctx.as_int(p, a) - ctx.as_int(p, b))), ("int",))
        return
    if isinstance(op, ast.Mult):
        yield p, Val(V.VInt(simp(ctx.as_int(p, a) * ctx.as_int(p, b))), ("int",))
        return
    if isinstance(op, ast.BitOr):
        if isinstance(a, (ClassRef, Builtin)) or isinstance(b, (ClassRef, Builtin)):
            yield p, _ClsUnion(_cls_list(a) + _cls_list(b))
            return
        if ctx.kind(a) == "VSet":
            arr = z3.SetUnion(ctx.set_arr(p, a), ctx.set_arr(p, b))
            yield p, ctx.mk_set(p, arr, a.ann)
            return
        raise Unsupported("'|' operands")
    if isinstance(op, ast.BitAnd) and ctx.kind(a) == "VSet":
        arr = z3.SetIntersect(ctx.set_arr(p, a), ctx.set_arr(p, b))
        yield p, ctx.mk_set(p, arr, a.ann)
        return
    if isinstance(op, ast.Mod):
        raise Unsupported("% operator")
    if isinstance(op, ast.Div):
        # path / segment on an external path object: an external call like any other (result: a path of the same class)
        for x in (a, b):
            if isinstance(x, Val) and x.ann is not None and x.ann[0] == "obj" and x.ann[1].extern is not None:
                from .calls import call_extern
                yield from call_extern(ctx, fr, p, f"{x.ann[1].qualname}.__truediv__", [a, b], {}, node, result_ann=x.ann)
                return
    raise Unsupported(f"binary op {type(op).__name__}")


class _ClsUnion:
    def __init__(self, items):
        self.items = items


def _cls_list(x):
    if isinstance(x, _ClsUnion):
        return x.items
    return [x]


def e_Compare(ctx, fr, path, node):
    def go(p, left, ops, comps, acc):
        # acc: z3 Bool of the conjunction so far (chained comparisons short-circuit; operands here are pure)
        if not ops:
            yield p, ctx.boolval(acc)
            return
        for q, right in ev(ctx, fr, p, comps[0]):
            for r, c in compare(ctx, fr, q, ops[0], left, right, node):
                yield from go(r, right, ops[1:], comps[1:], simp(z3.And(acc, c)))
    for p, left in ev(ctx, fr, path, node.left):
        yield from go(p, left, node.ops, node.comparators, z3.BoolVal(True))


def compare(ctx, fr, p, op, a, b, node=None):
    """yields (path, z3 Bool)"""
    if isinstance(op, (ast.Eq, ast.NotEq)):
        for q, c in py_eq(ctx, fr, p, a, b):
            yield q, (c if isinstance(op, ast.Eq) else simp(z3.Not(c)))
        return
    if isinstance(op, (ast.Is, ast.IsNot)):
        if not isinstance(a, Val) or not isinstance(b, Val):
            c = z3.BoolVal(_same_concrete(a, b))
        else:
            c = a.t == b.t
        yield p, (c if isinstance(op, ast.Is) else z3.Not(c))
        return
    if isinstance(op, (ast.In, ast.NotIn)):
        for q, c in py_in(ctx, fr, p, a, b, node):
            yield q, (c if isinstance(op, ast.In) else simp(z3.Not(c)))
        return
    if isinstance(op, (ast.Lt, ast.LtE, ast.Gt, ast.GtE)):
        ka = ctx.kind(a)
        if ka == "VStr":
            x, y = ctx.as_str(p, a), ctx.as_str(p, b)
            lt = {ast.Lt: x < y, ast.LtE: x <= y, ast.Gt: y < x, ast.GtE: y <= x}[type(op)]
            yield p, lt
            return
        x, y = ctx.as_int(p, a), ctx.as_int(p, b)
        yield p, {ast.Lt: x < y, ast.LtE: x <= y, ast.Gt: x > y, ast.GtE: x >= y}[type(op)]
        return
    raise Unsupported("comparison operator")


def _same_concrete(a, b):
    if isinstance(a, ClassRef) and isinstance(b, ClassRef):
        return a.info.cid == b.info.cid
    return a is b


def _has_custom_eq(ctx, ci):
    for c in ci.mro():
        if "__eq__" in c.methods:
            return c.methods["__eq__"]
        if c.dataclass and c.dc_eq:
            return ("dataclass", c)
    return None


def py_eq(ctx, fr, p, a, b):
    """Python ==; yields (path, z3 Bool)."""
    if isinstance(a, _ConstSet):
        a = a.v
    if isinstance(b, _ConstSet):
        b = b.v
    if not isinstance(a, Val) or not isinstance(b, Val):
        if isinstance(a, Val) and isinstance(b, (ClassRef, Builtin)):
            b = ctx.toV(b)
        elif isinstance(b, Val) and isinstance(a, (ClassRef, Builtin)):
            a = ctx.toV(a)
        else:
            yield p, z3.BoolVal(_same_concrete(a, b))
            return
    ka, kb = ctx.kind(a), ctx.kind(b)
    scal = ("VStr", "VNone", "VCls", "VFun", "VFloat")
    if a.ann == ("counter",) or b.ann == ("counter",):
        yield p, simp(a.t == b.t)
        return
    if ka in scal or kb in scal:
        yield p, simp(a.t == b.t)
        return
    if ka in ("VInt", "VBool") and kb in ("VInt", "VBool"):
        if ka == kb:
            yield p, simp(a.t == b.t)
        else:
            yield p, simp(ctx.as_int(p, a) == ctx.as_int(p, b))
        return
    if ka == "VRec" and kb == "VRec":
        ta, tb = simp(a.t), simp(b.t)
        if smt.ctor(ta) == "VRec" and smt.ctor(tb) == "VRec":
            ka_, va_ = smt.unit_items(ta.arg(0)), smt.unit_items(ta.arg(1))
            kb_, vb_ = smt.unit_items(tb.arg(0)), smt.unit_items(tb.arg(1))
            if None not in (ka_, va_, kb_, vb_) and all(smt.ctor(k) == "VStr" and z3.is_string_value(k.arg(0)) for k in ka_ + kb_):
                da = {k.arg(0).as_string(): v for k, v in zip(ka_, va_)}
                db = {k.arg(0).as_string(): v for k, v in zip(kb_, vb_)}
                if set(da) != set(db):
                    yield p, z3.BoolVal(False)
                    return
                keys = sorted(da)

                def go(q, i, acc):
                    if i == len(keys):
                        yield q, acc
                        return
                    for r, c in py_eq(ctx, fr, q, Val(da[keys[i]]), Val(db[keys[i]])):
                        yield from go(r, i + 1, simp(z3.And(acc, c)))
                yield from go(p, 0, z3.BoolVal(True))
                return
        yield p, simp(a.t == b.t)
        return
    if ka == "VSet" and kb == "VSet":
        yield p, simp(ctx.set_arr(p, a) == ctx.set_arr(p, b))
        return
    if ka == "VObj" or kb == "VObj":
        yield from obj_eq(ctx, fr, p, a, b)
        return
    if ka in ("VList", "VTuple") and kb == ka:
        ea = ann_elem(a.ann) or ann_elem(b.ann)
        if ea is not None and not ann_mutable(ea):
            yield p, simp(a.t == b.t)
            return
        sa, sb = ctx.as_seq(p, a), ctx.as_seq(p, b)
        ia, ib = smt.unit_items(sa), smt.unit_items(sb)
        if ia is not None and ib is not None:
            if len(ia) != len(ib):
                yield p, z3.BoolVal(False)
                return
            def go(q, i, acc):
                if i == len(ia):
                    yield q, acc
                    return
                for r, c in py_eq(ctx, fr, q, Val(ia[i], ea), Val(ib[i], ea)):
                    yield from go(r, i + 1, simp(z3.And(acc, c)))
            yield from go(p, 0, z3.BoolVal(True))
            return
        yield p, simp(z3.Or(a.t == b.t, smt.pyeq(a.t, b.t)))
        p.note("pyeq: == on containers of objects is an uninterpreted relation (reflexive)")
        return
    if ka is None and kb is None:
        # dynamically typed on both sides: structural equality, with bool/int identified
        p.note("== on dynamically typed values: structural (True==1 identified)")
        yield p, simp(z3.Or(a.t == b.t,
                            z3.And(z3.Or(V.is_VInt(a.t), V.is_VBool(a.t)), z3.Or(V.is_VInt(b.t), V.is_VBool(b.t)),
                                   _intof(a.t) == _intof(b.t))))
        return
    # one side of known non-object kind, other dynamic
    yield p, simp(a.t == b.t)


def _intof(t):
    return z3.If(V.is_VBool(t), z3.If(V.b(t), 1, 0), V.i(t))


def obj_eq(ctx, fr, p, a, b):
    from .calls import call_function
    ka = ctx.kind(a)
    if ka != "VObj":
        # reflected: b is the object
        classes_b = possible_classes(ctx, p, b)
        if classes_b and all(_has_custom_eq(ctx, c) is None for c in classes_b):
            yield p, simp(a.t == b.t)
            return
        a, b = b, a
    classes = possible_classes(ctx, p, a)
    if classes is None:
        yield p, simp(z3.Or(a.t == b.t, smt.pyeq(a.t, b.t)))
        return
    if all(c.is_enum or _has_custom_eq(ctx, c) is None for c in classes):
        yield p, simp(a.t == b.t)    # identity
        return
    if len(classes) == 1:
        ci = classes[0]
        eqm = _has_custom_eq(ctx, ci)
        if isinstance(eqm, FuncRef):
            for q, r in call_function(ctx, fr, p, eqm, [a, b], {}):
                # NotImplemented -> identity fallback (reflected __eq__ of the same kind is not modelled beyond that)
                ni = V.VObj(z3.IntVal(ctx.ct.notimpl.cid), z3.IntVal(1))
                yield q, simp(z3.If(r.t == ni, a.t == b.t, ctx.truthy(q, r)))
            return
        if isinstance(eqm, tuple):
            dc = eqm[1]
            # dataclass-generated __eq__: same class and equal compare-fields
            same_cls = simp(z3.And(V.is_VObj(b.t), V.cls(b.t) == V.cls(a.t)))
            for q, tv in ctx.branch(p, same_cls, "dc_eq.class"):
                if not tv:
                    yield q, z3.BoolVal(False)
                    continue
                fields = [f for f in ci.all_fields() if f in _compare_fields(ci)]
                def go(q2, i, acc):
                    if i == len(fields):
                        yield q2, acc
                        return
                    fa = ctx.read_field(q2, a, fields[i], ci.all_fields()[fields[i]])
                    fb = ctx.read_field(q2, b, fields[i], ci.all_fields()[fields[i]])
                    for r, c in py_eq(ctx, fr, q2, fa, fb):
                        yield from go(r, i + 1, simp(z3.And(acc, c)))
                yield from go(q, 0, z3.BoolVal(True))
            return
    # several possible classes with custom equality: abstract relation (the contract of __eq__)
    p.note("pyeq: dynamic dispatch of __eq__ uses the abstract relation")
    yield p, simp(z3.Or(a.t == b.t, smt.pyeq(a.t, b.t)))


def _compare_fields(ci):
    out = []
    for c in reversed(ci.mro()):
        out += c.compare_fields
    return out


def py_in(ctx, fr, p, x, cont, node=None):
    if isinstance(cont, _ConstSet):
        xv = ctx.toV(x)
        yield p, simp(z3.Select(cont.arr, xv.t))
        return
    if isinstance(cont, SpecConst):
        xv = ctx.toV(x)
        yield p, simp(z3.Or([xv.t == ctx.lift(c).t for c in cont.value])) if cont.value else z3.BoolVal(False)
        return
    if not isinstance(cont, Val):
        raise Unsupported("'in' on non-value")
    k = ctx.kind(cont)
    if k == "VStr":
        yield p, simp(z3.Contains(ctx.as_str(p, cont), ctx.as_str(p, x, "left operand of 'in <str>'")))
        return
    xv = ctx.toV(x)
    if k == "VSet":
        arr = simp(ctx.set_arr(p, cont))
        # literal set display: membership as a disjunction of equalities (keeps case splits available)
        elems = []
        t = arr
        while z3.is_app(t) and t.decl().kind() == z3.Z3_OP_STORE and z3.is_true(t.arg(2)):
            elems.append(t.arg(1))
            t = t.arg(0)
        if elems and z3.eq(t, smt.EMPTY_SET) and len(elems) <= 12:
            yield p, simp(z3.Or([xv.t == e for e in reversed(elems)]))
            return
        yield p, simp(z3.Select(arr, xv.t))
        return
    if k == "VDict":
        yield p, simp(z3.Select(ctx.dict_parts(p, cont)[0], xv.t))
        return
    if k == "VRec":
        t = simp(cont.t)
        if smt.ctor(t) == "VRec":
            keys = smt.unit_items(t.arg(0))
            if keys is not None:
                yield p, simp(z3.Or([xv.t == kk for kk in keys])) if keys else z3.BoolVal(False)
                return
        yield p, smt.rhas(t, xv.t)
        return
    if k in ("VList", "VTuple"):
        seq = ctx.as_seq(p, cont)
        items = smt.unit_items(seq)
        ea = ann_elem(cont.ann)
        if items is not None:
            def go(q, i, acc):
                if i == len(items):
                    yield q, acc
                    return
                for r, c in py_eq(ctx, fr, q, xv, Val(items[i], ea)):
                    yield from go(r, i + 1, simp(z3.Or(acc, c)))
            yield from go(p, 0, z3.BoolVal(False))
            return
        if ctx.kind(xv) == "VObj" and any(_has_custom_eq(ctx, c) and not c.is_enum for c in (possible_classes(ctx, p, xv) or [])):
            f = ctx.func("list_contains_eq", smt.SeqV, V, smt.BoolS)
            p.note("membership in a list of objects with __eq__: uninterpreted (Contains implies it)")
            p.assume(z3.Implies(z3.Contains(seq, z3.Unit(xv.t)), f(seq, xv.t)))
            yield p, f(seq, xv.t)
            return
        yield p, simp(z3.Contains(seq, z3.Unit(xv.t)))
        return
    raise Unsupported(f"'in' on container of unknown type ({_where(node)})")


def _join_container_ann(a, b):
    """list/set annotation when only one side knows the element shape (the other is an empty literal)."""
    for x, y in ((a, b), (b, a)):
        if x is not None and y is not None and x[0] in ("list", "set") and y[0] == x[0] and len(y) > 1 and y[1] is None:
            return x
    return None


def e_IfExp(ctx, fr, path, node):
    if is_pure_expr(node.test) and is_pure_expr(node.body) and is_pure_expr(node.orelse):
        # merged evaluation: value-level ite, no fork
        tv = ev_guarded(ctx, fr, path, node.test, None)
        if isinstance(tv, Val):
            c = simp(ctx.truthy(path, tv))
            if z3.is_true(c) or z3.is_false(c):
                yield from ev(ctx, fr, path, node.body if z3.is_true(c) else node.orelse)
                return
            a = ev_guarded(ctx, fr, path, node.body, c)
            b = ev_guarded(ctx, fr, path, node.orelse, simp(z3.Not(c)))
            if isinstance(a, Val) and isinstance(b, Val):
                ann = a.ann if a.ann == b.ann else _join_container_ann(a.ann, b.ann)
                own = "imm" if (a.own == "imm" and b.own == "imm") else ("borrow" if "borrow" in (a.own, b.own) else "fresh")
                mv = Val(simp(z3.If(c, a.t, b.t)), ann, own=own, deep=a.deep and b.deep)
                mv.root = a.root if a.root == b.root else None
                yield path, mv
                return
    for p, c in ev(ctx, fr, path, node.test):
        for q, tv in ctx.branch(p, ctx.truthy(p, c), f"ifexp@{node.lineno}"):
            yield from ev(ctx, fr, q, node.body if tv else node.orelse)


def to_str_term(ctx, p, v, node=None):
    """str(v) / f'{v}' as a String term."""
    if not isinstance(v, Val):
        raise Unsupported("str() of non-value")
    t = simp(v.t)
    k = ctx.kind(v)
    if k == "VStr":
        return ctx.as_str(p, v)
    if k == "VInt":
        i = ctx.as_int(p, v)
        return simp(z3.If(i >= 0, z3.IntToStr(i), z3.Concat(z3.StringVal("-"), z3.IntToStr(-i))))
    if k == "VBool":
        return simp(z3.If(V.b(t) if smt.ctor(t) != "VBool" else t.arg(0), z3.StringVal("True"), z3.StringVal("False")))
    if k == "VNone":
        return z3.StringVal("None")
    # dynamically typed: one term by cases; other kinds (floats, objects) are an uninterpreted function of x
    p.note("str(x) of a non-str/int/bool/None value is an uninterpreted function of x")
    n = V.i(t)
    return z3.If(V.is_VStr(t), V.s(t),
           z3.If(V.is_VInt(t), z3.If(n >= 0, z3.IntToStr(n), z3.Concat(z3.StringVal("-"), z3.IntToStr(-n))),
           z3.If(V.is_VBool(t), z3.If(V.b(t), z3.StringVal("True"), z3.StringVal("False")),
           z3.If(V.is_VNone(t), z3.StringVal("None"), ctx.func("py_str", V, smt.StrS)(t)))))


def e_JoinedStr(ctx, fr, path, node):
    def go(p, i, acc):
        if i == len(node.values):
            if not acc:
                yield p, ctx.lift("")
            else:
                yield p, Val(V.VStr(simp(z3.Concat(*acc)) if len(acc) > 1 else acc[0]), ("str",))
            return
        v = node.values[i]
        if isinstance(v, ast.Constant):
            yield from go(p, i + 1, acc + [z3.StringVal(v.value)])
        else:
            if v.format_spec is not None or v.conversion not in (-1, 115):
                raise Unsupported("format spec in f-string")
            for q, x in ev(ctx, fr, p, v.value):
                yield from go(q, i + 1, acc + [to_str_term(ctx, q, x, node)])
    yield from go(path, 0, [])


# ------------------------------------------------------------------------------------------------ displays
def _expand_elts(ctx, fr, path, elts):
    """Evaluate display elements, handling *starred (only over syntactically known sequences or as seq terms).
    yields (path, [ ('one', Val) | ('many', seq term, ann) ])"""
    def go(p, i, acc):
        if i == len(elts):
            yield p, acc
            return
        e = elts[i]
        if isinstance(e, ast.Starred):
            for q, v in ev(ctx, fr, p, e.value):
                yield from go(q, i + 1, acc + [("many", ctx.as_seq(q, v), v)])
        else:
            for q, v in ev(ctx, fr, p, e):
                yield from go(q, i + 1, acc + [("one", ctx.toV(v))])
    yield from go(path, 0, [])


def _seq_from_parts(parts):
    segs = []
    for pt in parts:
        if pt[0] == "one":
            segs.append(z3.Unit(pt[1].t))
        else:
            segs.append(pt[1])
    if not segs:
        return smt.EMPTY_SEQ
    return simp(z3.Concat(*segs)) if len(segs) > 1 else segs[0]


def _deep(parts):
    for pt in parts:
        v = pt[1] if pt[0] == "one" else pt[2]
        if v.own == "borrow" or (v.own == "fresh" and not v.deep):
            return False
    return True


def e_List(ctx, fr, path, node):
    for p, parts in _expand_elts(ctx, fr, path, node.elts):
        ea = None
        for pt in parts:
            if pt[0] == "one" and pt[1].ann is not None:
                ea = pt[1].ann
        yield p, Val(V.VList(_seq_from_parts(parts)), ("list", ea), own="fresh", deep=_deep(parts))


def e_Tuple(ctx, fr, path, node):
    for p, parts in _expand_elts(ctx, fr, path, node.elts):
        anns = [pt[1].ann if pt[0] == "one" else None for pt in parts]
        yield p, Val(V.VTuple(_seq_from_parts(parts)), ("tuple", anns), own="imm" if _deep(parts) else "borrow", deep=_deep(parts))


def e_Set(ctx, fr, path, node):
    for p, parts in _expand_elts(ctx, fr, path, node.elts):
        arr = smt.EMPTY_SET
        for pt in parts:
            if pt[0] != "one":
                raise Unsupported("starred in set display")
            arr = z3.Store(arr, pt[1].t, True)
        yield p, ctx.mk_set(p, arr)


def e_Dict(ctx, fr, path, node):
    if any(k is None for k in node.keys):
        raise Unsupported("** in dict display")
    for p, vals in ev_list(ctx, fr, path, [x for kv in zip(node.keys, node.values) for x in kv]):
        ks = [ctx.toV(v) for v in vals[0::2]]
        vs = [ctx.toV(v) for v in vals[1::2]]
        if not ks:
            yield p, ctx.mk_dict(p, smt.EMPTY_SET, z3.K(V, V.VNone), smt.EMPTY_SEQ)
            continue
        deep = all(not (v.own == "borrow" or (v.own == "fresh" and not v.deep)) for v in vs)
        t = V.VRec(smt.seq_of_list([k.t for k in ks]), smt.seq_of_list([v.t for v in vs]))
        yield p, Val(simp(t), ("rec", {smt.str_lit(V.s(k.t)) if smt.ctor(simp(k.t)) == "VStr" else None: v.ann for k, v in zip(ks, vs)}),
                     own="fresh", deep=deep)


def rec_lookup(ctx, p, rec: Val, key: Val, node=None, must=True):
    """rec[key] for a record value. Returns Val."""
    t = simp(rec.t)
    kt = simp(key.t)
    if smt.ctor(t) == "VRec":
        keys = smt.unit_items(t.arg(0))
        vals = smt.unit_items(t.arg(1))
        if keys is not None and vals is not None and len(keys) == len(vals):
            # constant keys: resolve
            res = None
            present = []
            for kk, vv in reversed(list(zip(keys, vals))):
                c = simp(kt == kk)
                present.append(c)
                if z3.is_true(c):
                    res = vv
                elif z3.is_false(c):
                    continue
                else:
                    res = vv if res is None else z3.If(c, vv, res)
            if must:
                ctx.safety(p, z3.Or(present) if present else z3.BoolVal(False), "dict key present", _where(node))
            if res is None:
                res = V.VNone
            lit = smt.str_lit(V.s(kt)) if smt.ctor(kt) == "VStr" else None
            ann = ctx.rec_field_ann(rec.ann, lit)
            rv = Val(simp(res), ann, own=rec.own if rec.own != "imm" else "imm", deep=rec.deep, src=("item", rec, key))
            return rv
    # opaque record
    if must:
        ctx.safety(p, smt.rhas(t, kt), "dict key present", _where(node))
    lit = smt.str_lit(V.s(kt)) if smt.ctor(kt) == "VStr" else None
    ann = ctx.rec_field_ann(rec.ann, lit)
    v = Val(simp(smt.rget(t, kt)), ann, own=rec.own, deep=rec.deep, src=("item", rec, key))
    f = ann_fact(v.t, ann, ctx.ct)
    if f is not None:
        p.assume(f, "declared record shapes")
    return v


def rec_store(ctx, p, rec: Val, key: Val, val: Val):
    t = simp(rec.t)
    kt = simp(key.t)
    if smt.ctor(t) == "VRec":
        keys = smt.unit_items(t.arg(0))
        vals = smt.unit_items(t.arg(1))
        if keys is not None and vals is not None:
            for i, kk in enumerate(keys):
                c = simp(kt == kk)
                if z3.is_true(c):
                    vals = list(vals)
                    vals[i] = val.t
                    nt = V.VRec(smt.seq_of_list(keys), smt.seq_of_list(vals))
                    return _rooted(Val(simp(nt), rec.ann, own=rec.own, deep=rec.deep and not (val.own == "borrow")), rec)
                if not z3.is_false(c):
                    raise Unsupported("record store with symbolic key")
            nt = V.VRec(smt.seq_of_list(list(keys) + [kt]), smt.seq_of_list(list(vals) + [val.t]))
            return _rooted(Val(simp(nt), rec.ann, own=rec.own, deep=rec.deep and not (val.own == "borrow")), rec)
    # opaque record: functional update with instantiated select/store axioms
    rset = ctx.func("rset", V, V, V, V)
    nt = rset(t, kt, val.t)
    p.assume(smt.rget(nt, kt) == val.t, "record update axioms")
    p.assume(smt.rhas(nt, kt))
    p.assume(V.is_VRec(nt))
    ctx.rset_terms = getattr(ctx, "rset_terms", [])
    ctx.rset_terms.append((nt, t, kt))
    return _rooted(Val(nt, rec.ann, own=rec.own, deep=rec.deep and not (val.own == "borrow")), rec)


def _rooted(v, parent):
    v.root = parent.root
    v.src = parent.src
    return v


def instantiate_rset(ctx, p, rec_t, key_t):
    """Frame axiom instances for reads of an updated opaque record."""
    for (nt, old, k) in getattr(ctx, "rset_terms", []):
        if z3.eq(nt, rec_t):
            p.assume(z3.Implies(key_t != k, z3.And(smt.rget(nt, key_t) == smt.rget(old, key_t),
                                                    smt.rhas(nt, key_t) == smt.rhas(old, key_t))))


# ------------------------------------------------------------------------------------------------ subscripts
def norm_index(seq_len, i):
    return z3.If(i < 0, seq_len + i, i)


def py_slice(ctx, p, seq, lo, hi, is_str):
    n = z3.Length(seq)

    def clamp(x, dflt):
        if x is None:
            return dflt
        return z3.If(x < 0, z3.If(n + x < 0, z3.IntVal(0), n + x), z3.If(x > n, n, x))
    lo_t, hi_t = ctx.resolve(p, clamp(lo, z3.IntVal(0))), ctx.resolve(p, clamp(hi, n))
    ln = ctx.resolve(p, z3.If(hi_t - lo_t < 0, z3.IntVal(0), hi_t - lo_t))
    if is_str:
        return simp(z3.SubString(seq, lo_t, ln))
    r = z3.Extract(seq, lo_t, ln)
    rs = simp(r)
    # slices are in-bounds by construction (indices clamped as Python does): remember that, so that iteration
    # over the slice can be expressed as a sub-range of the base sequence without asking a solver
    ctx.safe_extracts[r.get_id()] = r
    # keep the extract form (z3 rewrites guarded extracts into ite-terms, which hides the sub-range)
    if z3.is_app(rs) and rs.decl().kind() == z3.Z3_OP_ITE:
        return r
    ctx.safe_extracts[rs.get_id()] = rs
    return rs


def e_Subscript(ctx, fr, path, node):
    for p, o in ev(ctx, fr, path, node.value):
        if isinstance(node.slice, ast.Slice):
            if node.slice.step is not None:
                raise Unsupported("slice step")
            parts = [x for x in (node.slice.lower, node.slice.upper) if x is not None]
            for q, vals in ev_list(ctx, fr, p, parts):
                it = iter(vals)
                lo = ctx.as_int(q, next(it)) if node.slice.lower is not None else None
                hi = ctx.as_int(q, next(it)) if node.slice.upper is not None else None
                k = ctx.kind(o)
                if k == "VStr":
                    yield q, Val(V.VStr(py_slice(ctx, q, ctx.as_str(q, o), lo, hi, True)), ("str",))
                elif k in ("VList", "VTuple"):
                    s = py_slice(ctx, q, ctx.as_seq(q, o), lo, hi, False)
                    yield q, Val(V.VList(s) if k == "VList" else V.VTuple(s), o.ann, own="fresh" if k == "VList" else o.own,
                                 deep=o.own != "borrow")
                else:
                    raise Unsupported(f"slice of unknown kind ({_where(node)})")
            continue
        for q, i in ev(ctx, fr, p, node.slice):
            yield q, subscript(ctx, fr, q, o, i, node)


def subscript(ctx, fr, q, o, i, node=None):
    if isinstance(o, SpecConst) and isinstance(o.value, dict):
        raise Unsupported("subscript of python dict constant")
    if not isinstance(o, Val):
        raise Unsupported(f"subscript of {type(o).__name__}")
    i = ctx.toV(i)
    k = ctx.kind(o)
    if k == "VStr":
        s = ctx.as_str(q, o)
        idx = ctx.as_int(q, i)
        n = z3.Length(s)
        ctx.safety(q, z3.And(idx < n, idx >= -n), "string index in range", _where(node))
        return Val(V.VStr(simp(z3.SubString(s, norm_index(n, idx), 1))), ("str",))
    if k in ("VList", "VTuple"):
        s = ctx.as_seq(q, o)
        idx = ctx.as_int(q, i)
        n = z3.Length(s)
        ctx.safety(q, z3.And(idx < n, idx >= -n), "sequence index in range", _where(node))
        ea = ann_elem(o.ann)
        if o.ann is not None and o.ann[0] == "tuple" and o.ann[1]:
            ii = simp(idx)
            if z3.is_int_value(ii) and -len(o.ann[1]) <= ii.as_long() < len(o.ann[1]):
                ea = o.ann[1][ii.as_long()]
        t = smt.nth(s, simp(norm_index(n, idx)))
        own = "imm" if not ann_mutable(ea) else o.own
        v = Val(t, ea, own=own, deep=o.deep, src=("item", o, i))
        f = ann_fact(t, ea, ctx.ct)
        if f is not None:
            q.assume(f, "declared element shapes")
        if ea is not None and ea[0] == "obj" and ea[1].is_enum:
            ctx.enum_fact(q, v, ea[1])
        return v
    if k == "VRec":
        instantiate_rset(ctx, q, simp(o.t), simp(i.t))
        return rec_lookup(ctx, q, o, i, node)
    if k == "VDict":
        has, get, keys = ctx.dict_parts(q, o)
        default_factory = o.ann is not None and len(o.ann) > 3 and o.ann[3]
        if not default_factory:
            ctx.safety(q, z3.Select(has, i.t), "dict key present", _where(node))
        va = o.ann[2] if o.ann is not None and o.ann[0] == "dict" else None
        t = simp(z3.Select(get, i.t))
        v = Val(t, va, own="imm" if not ann_mutable(va) else o.own, deep=o.deep, src=("item", o, i))
        f = ann_fact(t, va, ctx.ct)
        if f is not None:
            q.assume(z3.Implies(z3.Select(has, i.t), f), "declared dict value shapes")
        return v
    if k is None and smt.ctor(simp(i.t)) == "VStr":
        ctx.safety(q, V.is_VRec(simp(o.t)), "subscript with a str key on a dict", _where(node))
        instantiate_rset(ctx, q, simp(o.t), simp(i.t))
        return rec_lookup(ctx, q, o, i, node)
    raise Unsupported(f"subscript on value of unknown kind ({_where(node)})")


def e_Lambda(ctx, fr, path, node):
    yield path, Closure(node, dict(path.env), fr.mi)


def e_Starred(ctx, fr, path, node):
    raise Unsupported("starred expression outside display/call")


def e_Call(ctx, fr, path, node):
    from .calls import eval_call
    yield from eval_call(ctx, fr, path, node)


def e_Comp(ctx, fr, path, node):
    from .loops import eval_comprehension
    yield from eval_comprehension(ctx, fr, path, node)


def e_NamedExpr(ctx, fr, path, node):
    for p, v in ev(ctx, fr, path, node.value):
        p.env[node.target.id] = v
        yield p, v


_DISPATCH = {
    ast.Constant: e_Constant, ast.Name: e_Name, ast.Attribute: e_Attribute, ast.BoolOp: e_BoolOp,
    ast.UnaryOp: e_UnaryOp, ast.BinOp: e_BinOp, ast.Compare: e_Compare, ast.IfExp: e_IfExp,
    ast.JoinedStr: e_JoinedStr, ast.List: e_List, ast.Tuple: e_Tuple, ast.Set: e_Set, ast.Dict: e_Dict,
    ast.Subscript: e_Subscript, ast.Lambda: e_Lambda, ast.Call: e_Call, ast.ListComp: e_Comp,
    ast.SetComp: e_Comp, ast.GeneratorExp: e_Comp, ast.NamedExpr: e_NamedExpr, ast.Starred: e_Starred,
}
