"""pyvc symbolic executor: per-path forward execution of real Python source into z3 terms.

Files: engine.py (context, helpers), expr.py (expressions), stmt.py (statements, loops),
calls.py (calls, contracts, builtins).
"""
from __future__ import annotations

import ast
import importlib
import itertools

import z3

from . import smt
from .smt import V, simp
from .state import ALLOC_BASE, Obligation, Outcome, Path
from .values import (Bound, Builtin, ClassInfo, ClassRef, ClassTable, Closure, ExtFunc, FuncRef, ModRef,
                     SpecConst, Unsupported, Val, ann_elem, ann_fact, ann_mutable)

EXTERN_MODULE_PREFIXES = ("mypy", "griffe", "logging", "pathlib", "io", "json", "inspect", "copy", "itertools",
                          "collections", "dataclasses", "types", "typing", "re", "enum", "abc", "argparse",
                          "importlib", "__future__")


import os as _os, atexit as _atexit
_BRLOG = {}


def _dump_brlog():
    if _BRLOG:
        import sys
        for k, v in sorted(_BRLOG.items(), key=lambda kv: -kv[1])[:40]:
            print(f"BR {v:5d} {k}", file=sys.stderr)


_atexit.register(_dump_brlog)


def _is_literal_term(t):
    if z3.is_string_value(t) or z3.is_int_value(t) or z3.is_true(t) or z3.is_false(t):
        return True
    if z3.is_app(t) and t.sort() == V and t.decl().kind() == z3.Z3_OP_DT_CONSTRUCTOR:
        return all(_is_literal_term(c) for c in t.children())
    return False


def _int_literals(t):
    out = set()
    stack = [t]
    seen = set()
    while stack:
        x = stack.pop()
        if x.get_id() in seen:
            continue
        seen.add(x.get_id())
        if z3.is_int_value(x):
            out.add(x.as_long())
        stack.extend(x.children())
    return out


class Ctx:
    """Global verification context for one run."""

    def __init__(self, src, registry=None, feas_timeout_ms=150):
        self.src = src
        self.ct = ClassTable(src)
        self.registry = registry           # contracts registry (pyvc.contracts.Registry)
        self.obligations: list[Obligation] = []
        self._obcount = {}
        self._light_cache = {}
        self.spec_cache = {}
        self.fresh = itertools.count(1)
        self.alloc = itertools.count(ALLOC_BASE)
        self.feas_timeout_ms = feas_timeout_ms
        self.inline_depth = 4
        self.call_stack: list[str] = []
        self.current = None                # current Task (target under verification)
        self.uf = {}                       # name -> z3 Function
        self.folds = {}                    # fold symbol name -> FoldInfo
        self.enum_oids = {}                # (cid, member name) -> oid
        self.enum_next = itertools.count(1000)
        self.stats = {"feas_checks": 0, "paths": 0}
        self.spec_mode = 0                 # >0 while evaluating contract/spec code
        self.assumptions = set()           # global assumption names used in this run
        self.mod_consts = {}               # (modname, name) -> value cache
        self.ext_schema = {}               # external class qualname -> {field: ann-text}
        self.fn_ids = {}                   # function target -> id for VFun
        self.pending_raises = []           # (path, exception Val) raised inside expression evaluation
        self.split_terms = []              # (parts seq term, sep, s) for element facts of str.split
        self.mapget_terms = []             # (values seq, get array, keys seq) for dict.values()
        self.rset_terms = []
        self.setperm_terms = []
        self.seqset_terms = []
        self.sort_terms = []
        self.world_mi = None
        self.rec_schemas = {}              # named record shapes: name -> {key: annotation text | parsed}
        self.safe_extracts = {}            # ast id -> Extract term known to be in bounds (built by a Python slice)
        self.set_origin = {}               # concrete sid -> sequence the set was built from

    # ---------------------------------------------------------------- fresh symbols
    def new(self, prefix, sort):
        return z3.Const(f"{prefix}!{next(self.fresh)}", sort)

    def newV(self, prefix="v"):
        return self.new(prefix, V)

    def func(self, name, *sorts):
        if name not in self.uf:
            self.uf[name] = z3.Function(name, *sorts)
        return self.uf[name]

    def new_path(self):
        p = Path()
        p.alloc = self.alloc
        return p

    # ---------------------------------------------------------------- annotations (declared shapes)
    def parse_ann(self, mi, node):
        """AST of an annotation -> Ann tuple (or None = nothing known)."""
        if node is None:
            return None
        if isinstance(node, ast.Constant):
            if node.value is None:
                return ("none",)
            if isinstance(node.value, str):
                try:
                    return self.parse_ann(mi, ast.parse(node.value, mode="eval").body)
                except SyntaxError:
                    return None
            return None
        if isinstance(node, ast.Name):
            n = node.id
            if n in ("str", "int", "bool", "float"):
                return (n,)
            if n in ("None", "NoneType"):
                return ("none",)
            if n in ("Any", "object"):
                return None
            if n in ("list",):
                return ("list", None)
            if n in ("set",):
                return ("set", None)
            if n == "dict":
                return ("dict", None, None)
            if n == "tuple":
                return ("tuple", [])
            if n == "rec":
                return ("rec", None)
            if n in self.rec_schemas:
                return ("rec", n)
            ci = self.class_by_name(mi, n)
            if ci is not None:
                return ("obj", ci)
            return None
        if isinstance(node, ast.Attribute):
            v = self.static_eval_name(mi, node)
            if isinstance(v, ClassRef):
                return ("obj", v.info)
            return None
        if isinstance(node, ast.BinOp) and isinstance(node.op, ast.BitOr):
            parts = []
            for side in (node.left, node.right):
                a = self.parse_ann(mi, side)
                if a is None:
                    return None
                if a[0] == "union":
                    parts += a[1]
                else:
                    parts.append(a)
            return ("union", parts)
        if isinstance(node, ast.Subscript):
            base = ast.unparse(node.value)
            args = node.slice.elts if isinstance(node.slice, ast.Tuple) else [node.slice]
            if base in ("list", "List"):
                return ("list", self.parse_ann(mi, args[0]))
            if base in ("Sequence", "Iterable", "Collection"):
                return ("seq", self.parse_ann(mi, args[0]))
            if base in ("set", "Set"):
                return ("set", self.parse_ann(mi, args[0]))
            if base == "frozenset":
                return ("frozenset", self.parse_ann(mi, args[0]))
            if base in ("dict", "Dict", "defaultdict", "Mapping"):
                return ("dict", self.parse_ann(mi, args[0]), self.parse_ann(mi, args[1]) if len(args) > 1 else None)
            if base in ("tuple", "Tuple"):
                return ("tuple", [self.parse_ann(mi, a) for a in args])
            if base == "Optional":
                a = self.parse_ann(mi, args[0])
                return ("union", [a, ("none",)]) if a else None
            return None
        return None

    def class_by_name(self, mi, name):
        r = self.src.resolve(mi.name, name)
        if r and r[0] == "def" and isinstance(r[2], ast.ClassDef):
            return self.ct.from_ast(r[1], r[2], self.parse_ann)
        if r and r[0] == "extern":
            v = self.extern_attr(r[1], r[2])
            if isinstance(v, ClassRef):
                return v.info
        return None

    def static_eval_name(self, mi, node):
        """Evaluate Name/Attribute chains that denote modules/classes, statically."""
        if isinstance(node, ast.Name):
            return self.global_lookup(mi, node.id, None)
        if isinstance(node, ast.Attribute):
            base = self.static_eval_name(mi, node.value)
            if isinstance(base, ModRef):
                return self.module_attr(base, node.attr)
        return None

    # ---------------------------------------------------------------- globals
    def global_lookup(self, mi, name, path):
        r = self.src.resolve(mi.name, name)
        if r is None:
            return None
        if r[0] == "module":
            mod = r[1]
            return ModRef(mod, extern=not self.src.has(mod))
        if r[0] == "extern":
            return self.extern_attr(r[1], r[2])
        _, dmi, node = r
        if isinstance(node, ast.FunctionDef):
            return FuncRef(dmi, None, node)
        if isinstance(node, ast.ClassDef):
            return ClassRef(self.ct.from_ast(dmi, node, self.parse_ann))
        # module-level constant
        key = (dmi.name, name)
        if key not in self.mod_consts:
            from .expr import eval_const_expr
            self.mod_consts[key] = eval_const_expr(self, dmi, node.value)
        return self.mod_consts[key]

    def module_attr(self, mod: ModRef, attr):
        if not mod.extern and self.src.has(mod.name):
            mi = self.src.module(mod.name)
            v = self.global_lookup(mi, attr, None)
            if v is not None:
                return v
            sub = mod.name + "." + attr
            if self.src.has(sub):
                return ModRef(sub)
            raise Unsupported(f"module attribute {mod.name}.{attr}")
        return self.extern_attr(mod.name, attr)

    def extern_attr(self, modname, attr):
        """Attribute of an external module: classes are registered from the installed library."""
        top = modname.split(".")[0]
        if top in ("typing", "__future__", "abc"):
            return SpecConst(None)
        try:
            m = importlib.import_module(modname)
            if not hasattr(m, attr):
                try:
                    importlib.import_module(modname + "." + attr)
                except Exception:
                    pass
            obj = getattr(m, attr)
        except Exception:
            return ExtFunc(f"{modname}.{attr}")
        import types as _types
        if isinstance(obj, _types.ModuleType):
            return ModRef(obj.__name__, extern=True)
        if obj is type(None):
            return Builtin("NoneType")
        if isinstance(obj, type):
            if obj.__module__ == "builtins":
                return Builtin(obj.__name__)
            if modname.split(".")[0] in ("mypy", "griffe", "pathlib", "io", "_io", "argparse"):
                return ClassRef(self.ct.register_native_tree(obj))
            return ExtFunc(f"{obj.__module__}.{obj.__qualname__}")
        if isinstance(obj, (int, str, bool)) and not callable(obj):
            return self.lift(obj)
        return ExtFunc(f"{modname}.{attr}")

    def load_repo_classes(self):
        """Closed world: every class of the package is registered before any reasoning about subclasses."""
        import os
        from .source import REPO_SRC
        root = os.path.join(REPO_SRC, "safeds_stubgen")
        for dp, dn, fn in sorted(os.walk(root)):
            for f in sorted(fn):
                if not f.endswith(".py"):
                    continue
                rel = os.path.relpath(os.path.join(dp, f), REPO_SRC)[:-3].replace(os.sep, ".")
                if rel.endswith(".__init__"):
                    rel = rel[: -len(".__init__")]
                try:
                    mi = self.src.module(rel)
                except (KeyError, SyntaxError):
                    continue
                for st in mi.tree.body:
                    if isinstance(st, ast.ClassDef):
                        self.ct.from_ast(mi, st, self.parse_ann)

    def load_world(self, modname="specs.world"):
        self.load_repo_classes()
        self.world_mi = self.src.module(modname)
        m = importlib.import_module(modname)
        for k, v in getattr(m, "SCHEMA", {}).items():
            self.ext_schema[k] = dict(v)
        for k, v in getattr(m, "RECORDS", {}).items():
            self.rec_schemas[k] = dict(v)
        self.ext_returns = dict(getattr(m, "EXTERNAL_RETURNS", {}))

    def extern_return_ann(self, qualname):
        """Declared (assumed) result shape of an external function, from specs/world.py EXTERNAL_RETURNS."""
        a = getattr(self, "ext_returns", {}).get(qualname)
        if isinstance(a, str):
            import ast as _ast
            a = self.parse_ann(self.world_mi, _ast.parse(a, mode="eval").body)
            self.ext_returns[qualname] = a
        return a

    def rec_field_ann(self, rec_ann, key):
        """Declared shape of rec[key] for a record annotation ('rec', dict | schema name | None)."""
        if rec_ann is None or rec_ann[0] == "union":
            if rec_ann is not None:
                for a in rec_ann[1]:
                    if a[0] == "rec":
                        return self.rec_field_ann(a, key)
            return None
        if rec_ann[0] != "rec" or rec_ann[1] is None:
            return None
        sch = rec_ann[1]
        if isinstance(sch, dict):
            return sch.get(key)
        d = self.rec_schemas.get(sch, {})
        a = d.get(key)
        if isinstance(a, str):
            import ast as _ast
            a = self.parse_ann(self.world_mi, _ast.parse(a, mode="eval").body)
            d[key] = a if a is not None else ("any",)
        return None if a == ("any",) else a

    def field_ann_guess(self, field):
        anns = []
        for ci in self.ct.by_cid.values():
            if field in ci.fields and ci.fields[field] not in anns:
                anns.append(ci.fields[field])
        return anns[0] if len(anns) == 1 else None

    # ---------------------------------------------------------------- external class shapes
    def extern_field_ann(self, ci, attr):
        for c in ci.mro():
            sch = self.ext_schema.get(c.qualname)
            if sch and attr in sch:
                a = sch[attr]
                if isinstance(a, str):
                    import ast as _ast
                    node = _ast.parse(a, mode="eval").body
                    a = self.parse_ann(self.world_mi, node)
                    if a is None and c.mi is not None:
                        a = self.parse_ann(c.mi, node)
                    sch[attr] = a if a is not None else ("any",)
                return None if a == ("any",) else a
        return None

    def class_has_attr(self, ci, name):
        """Does an instance of ci have attribute `name`? Repo classes: fields/methods/consts; external classes:
        read from the installed library (class attributes, __slots__, dataclass fields, declared schema)."""
        for c in ci.mro():
            if name in c.fields or name in c.methods or name in c.class_consts:
                return True
            sch = self.ext_schema.get(c.qualname)
            if sch and name in sch:
                return True
            if c.extern is not None:
                nat = c.extern
                if hasattr(nat, name):
                    return True
                if name in getattr(nat, "__slots__", ()) or name in getattr(nat, "__annotations__", {}):
                    return True
                if name in self.ext_instance_attrs(c):
                    return True
        return False

    def ext_instance_attrs(self, ci):
        """Instance attributes assigned in __init__ of an external class (parsed from its source, best effort)."""
        cache = self.__dict__.setdefault("_ext_attr_cache", {})
        if ci.qualname in cache:
            return cache[ci.qualname]
        out = set()
        try:
            import inspect, ast as _ast, textwrap
            srcs = inspect.getsource(ci.extern)
            tree = _ast.parse(textwrap.dedent(srcs))
            for n in _ast.walk(tree):
                if isinstance(n, _ast.Attribute) and isinstance(n.ctx, _ast.Store) and isinstance(n.value, _ast.Name) and n.value.id == "self":
                    out.add(n.attr)
        except Exception:
            pass
        cache[ci.qualname] = out
        return out

    # ---------------------------------------------------------------- lifting
    def lift(self, x):
        if isinstance(x, Val):
            return x
        if x is None:
            return Val(V.VNone, ("none",))
        if isinstance(x, bool):
            return Val(smt.B(x), ("bool",))
        if isinstance(x, int):
            return Val(smt.I(x), ("int",))
        if isinstance(x, str):
            return Val(smt.S(x), ("str",))
        if isinstance(x, float):
            return Val(V.VFloat(z3.IntVal(hash(x) % (10 ** 9))), ("float",))
        if isinstance(x, (list, tuple)):
            items = [self.lift(i) for i in x]
            seq = smt.seq_of_list([i.t for i in items])
            return Val(V.VList(seq) if isinstance(x, list) else V.VTuple(seq), ("list", None) if isinstance(x, list) else ("tuple", []), own="fresh")
        raise Unsupported(f"cannot lift {type(x)}")

    def toV(self, x, path=None):
        """Any engine value -> Val (classes/functions become VCls/VFun)."""
        if isinstance(x, Val):
            return x
        if isinstance(x, ClassRef):
            return Val(V.VCls(z3.IntVal(x.info.cid)))
        if isinstance(x, FuncRef):
            return Val(V.VFun(z3.IntVal(self.fn_id(x.target))))
        if isinstance(x, SpecConst):
            return self.lift(x.value)
        if isinstance(x, Builtin):
            return Val(V.VCls(z3.IntVal(self.builtin_cid(x.name))))
        raise Unsupported(f"value {type(x).__name__} cannot be stored")

    _BUILTIN_CIDS = {"str": 1, "int": 2, "bool": 3, "float": 4, "list": 5, "tuple": 6, "set": 7, "dict": 8,
                     "NoneType": 9, "frozenset": 10, "type": 11}

    def builtin_cid(self, name):
        if name not in self._BUILTIN_CIDS:
            raise Unsupported(f"builtin class {name} as value")
        return self._BUILTIN_CIDS[name]

    def fn_id(self, target):
        if target not in self.fn_ids:
            self.fn_ids[target] = len(self.fn_ids) + 1
        return self.fn_ids[target]

    # ---------------------------------------------------------------- feasibility / branching
    def _light(self, f):
        """Is this hypothesis cheap enough for the pruning solver? (dropping hypotheses only keeps more paths)"""
        i = f.get_id()
        r = self._light_cache.get(i)
        if r is None:
            sx = f.sexpr()
            r = len(sx) < 1500 and "str." not in sx and "seq." not in sx and "re." not in sx
            self._light_cache[i] = r
        return r

    def feasible(self, path, cond=None):
        """Pruning check: satisfiable under the branch conditions and the cheap hypotheses (a conservative
        subset: string/sequence facts are left to the final proof obligations)."""
        self.stats["feas_checks"] += 1
        s = z3.Solver()
        s.set("timeout", self.feas_timeout_ms)
        for h in path.pc:
            if self._light(h):
                s.add(h)
        for h in path.facts:
            if self._light(h):
                s.add(h)
        if cond is not None:
            if not self._light(cond):
                return True
            s.add(cond)
        return s.check() != z3.unsat

    def decide(self, path, cond):
        """True / False if the path hypotheses decide cond, else None."""
        cond = simp(cond)
        if z3.is_true(cond):
            return True
        if z3.is_false(cond):
            return False
        s = z3.Solver()
        s.set("timeout", self.feas_timeout_ms)
        s.add(*path.pc, *path.facts)
        s.push()
        s.add(z3.Not(cond))
        if s.check() == z3.unsat:
            return True
        s.pop()
        s.add(cond)
        if s.check() == z3.unsat:
            return False
        return None

    def resolve(self, path, t, depth=0):
        """Simplify t under the path hypotheses: ite-terms whose condition is decided are collapsed."""
        t = simp(t)
        if depth > 6 or not z3.is_app(t):
            return t
        if t.decl().kind() == z3.Z3_OP_ITE:
            d = self.decide(path, t.arg(0))
            if d is True:
                return self.resolve(path, t.arg(1), depth + 1)
            if d is False:
                return self.resolve(path, t.arg(2), depth + 1)
            return t
        if t.num_args() and t.decl().kind() in (z3.Z3_OP_ADD, z3.Z3_OP_SUB, z3.Z3_OP_MUL, z3.Z3_OP_UMINUS):
            ch = [self.resolve(path, c, depth + 1) for c in t.children()]
            if any(not z3.eq(a, b) for a, b in zip(ch, t.children())):
                return simp(t.decl()(*ch))
        return t

    def _learn(self, path, cond, value):
        """Record what a taken branch tells about atomic conditions (syntactic pruning of later branches):
        truth values of atoms, `term == literal` substitutions, exclusivity of datatype testers."""
        stack = [(cond, value)]
        while stack:
            c, v = stack.pop()
            if z3.is_not(c):
                stack.append((c.arg(0), not v))
            elif z3.is_and(c) and v:
                stack.extend((x, True) for x in c.children())
            elif z3.is_or(c) and not v:
                stack.extend((x, False) for x in c.children())
            elif z3.is_and(c) or z3.is_or(c):
                path.eqs.append((c, z3.BoolVal(v)))
            else:
                path.eqs.append((c, z3.BoolVal(v)))
                if v and z3.is_eq(c):
                    a, b = c.arg(0), c.arg(1)
                    for x, y in ((a, b), (b, a)):
                        if _is_literal_term(y) and not _is_literal_term(x):
                            path.eqs.append((x, y))
                            break
                if v and z3.is_app(c) and c.decl().kind() == z3.Z3_OP_DT_IS and c.arg(0).sort() == V:
                    t = c.arg(0)
                    me = c.decl()
                    for cn in smt.CTORS:
                        other = getattr(V, "is_" + cn)(t)
                        if not z3.eq(other, c):
                            path.eqs.append((other, z3.BoolVal(False)))

    def _learn_eq(self, path, cond):
        self._learn(path, cond, True)

    def branch(self, path, cond, label=""):
        """Yield (path, bool) for each feasible outcome of a Bool condition."""
        cond = simp(cond)
        if path.eqs and not (z3.is_true(cond) or z3.is_false(cond)):
            cond = simp(z3.substitute(cond, *path.eqs))
        if z3.is_true(cond):
            yield path, True
            return
        if z3.is_false(cond):
            yield path, False
            return
        if _os.environ.get("PYVC_BRLOG"):
            _BRLOG[str(cond).replace("\n", " ")[:160]] = _BRLOG.get(str(cond).replace("\n", " ")[:160], 0) + 1
        t_ok = self.feasible(path, cond)
        f_ok = self.feasible(path, z3.Not(cond))
        if t_ok and not f_ok:
            self._learn(path, cond, True)
            yield path, True
            return
        if f_ok and not t_ok:
            self._learn(path, cond, False)
            yield path, False
            return
        if not t_ok and not f_ok:
            return   # path itself infeasible
        q = path.fork()
        q.pc.append(cond)
        q.trace.append((label, True))
        self._learn_eq(q, cond)
        yield q, True
        r = path.fork()
        r.pc.append(simp(z3.Not(cond)))
        r.trace.append((label, False))
        self._learn(r, cond, False)
        yield r, False

    # ---------------------------------------------------------------- obligations
    def oblige(self, path, goal, kind, clause, where="", extra_hyps=()):
        goal = simp(goal)
        if z3.is_true(goal):
            # trivially discharged by the simplifier: still counted
            ob = Obligation(self._obname(clause), kind, [], goal, target=self.current.target if self.current else "",
                            clause=clause, notes=list(path.notes), where=where, status="discharged", backend="simplifier")
            self.obligations.append(ob)
            return ob
        ob = Obligation(self._obname(clause), kind, path.hyps() + list(extra_hyps), goal,
                        target=self.current.target if self.current else "", clause=clause,
                        notes=list(path.notes), where=where)
        self.obligations.append(ob)
        return ob

    def _obname(self, clause):
        base = f"{self.current.prop}/{self.current.short}/{clause}" if self.current else clause
        sfx = getattr(self.current, "suffix", "") if self.current else ""
        key = f"{base}#{sfx}"
        n = self._obcount.get(key, 0)
        self._obcount[key] = n + 1
        return f"{base}#{sfx}{'.' if sfx else ''}{n}"

    def safety(self, path, goal, what, where=""):
        """A run-time error that must be impossible; execution continues assuming it did not happen."""
        if self.spec_mode:
            # contract / spec code: definedness is assumed (specs are total on their stated domain)
            path.assume(goal)
            return
        g = simp(goal)
        if not z3.is_true(g):
            if self.current is not None and self.current.check_safety:
                self.oblige(path, g, "safety", f"safe:{what}", where)
            path.assume(g)

    # ---------------------------------------------------------------- allocation
    def alloc_obj(self, path, ci: ClassInfo):
        oid = next(self.alloc)
        return Val(V.VObj(z3.IntVal(ci.cid), z3.IntVal(oid)), ("obj", ci), own="fresh")

    def sym_obj(self, path, ci: ClassInfo, name="o", exact=False):
        """A pre-existing object of class ci (or a subclass): symbolic identity below ALLOC_BASE."""
        oid = self.new(name + "_oid", smt.IntS)
        if exact or not ci.subclasses:
            t = V.VObj(z3.IntVal(ci.cid), oid)
        else:
            c = self.new(name + "_cls", smt.IntS)
            t = V.VObj(c, oid)
            path.assume(z3.Or([c == k.cid for k in ci.instance_classes()]))
        path.assume(z3.And(oid >= 0, oid < ALLOC_BASE))
        return Val(t, ("obj", ci), own="borrow")

    def enum_member(self, ci: ClassInfo, name):
        key = (ci.cid, name)
        if key not in self.enum_oids:
            self.enum_oids[key] = next(self.enum_next)
        return Val(V.VObj(z3.IntVal(ci.cid), z3.IntVal(self.enum_oids[key])), ("obj", ci))

    def enum_fact(self, path, v: Val, ci: ClassInfo):
        """v is one of the members of enum ci."""
        oids = [self.enum_member(ci, n).t for n, _ in ci.enum_members]
        path.assume(z3.Or([v.t == o for o in oids]))

    # ---------------------------------------------------------------- heap
    def heap_arr(self, path, field):
        if field not in path.heap:
            path.heap[field] = z3.Array(f"H0_{field}", smt.IntS, V)
        return path.heap[field]

    def _select(self, path, field, oid):
        """Value of `field` of the object with identity `oid`: fresh objects (concrete ids) live in path.fresh,
        pre-existing ones in the heap arrays. A symbolic identity that may denote a fresh object is resolved
        by cases over the fresh ids it mentions."""
        oid = simp(oid)
        if z3.is_int_value(oid) and oid.as_long() >= ALLOC_BASE:
            return path.fresh.get((field, oid.as_long()), V.VNone)
        arr = self.heap_arr(path, field)
        t = z3.Select(arr, oid)
        lits = set()
        stack = [oid]
        seen = set()
        while stack:
            x = stack.pop()
            if x.get_id() in seen:
                continue
            seen.add(x.get_id())
            if z3.is_int_value(x) and x.as_long() >= ALLOC_BASE:
                lits.add(x.as_long())
            stack.extend(x.children())
        for L in sorted(lits):
            if (field, L) in path.fresh:
                t = z3.If(oid == L, path.fresh[(field, L)], t)
        return simp(t)

    def read_field(self, path, obj: Val, field, ann=None):
        t = self._select(path, field, V.oid(obj.t))
        own = "imm" if not ann_mutable(ann) else ("fresh" if obj.own == "fresh" else "borrow")
        v = Val(t, ann, own=own, deep=(own != "borrow"), src=("attr", obj, field))
        oid = simp(V.oid(obj.t))
        fresh_obj = z3.is_int_value(oid) and oid.as_long() >= ALLOC_BASE
        # declared shapes are an assumption about pre-existing objects only; objects built by the code under
        # verification hold whatever the code stored
        f = None if fresh_obj else ann_fact(t, ann, self.ct)
        if fresh_obj and smt.ctor(t) is not None:
            v.ann = ann if (ann_fact(t, ann, self.ct) is not None and z3.is_true(simp(ann_fact(t, ann, self.ct)))) else None
        if f is not None:
            path.assume(f, "declared field shapes (valid model objects)")
        if ann is not None and ann[0] == "obj" and ann[1].is_enum:
            self.enum_fact(path, v, ann[1])
        return v

    def write_field(self, path, obj: Val, field, val: Val):
        oid = simp(V.oid(obj.t))
        if z3.is_int_value(oid) and oid.as_long() >= ALLOC_BASE:
            path.fresh[(field, oid.as_long())] = simp(val.t)
            return
        lits = [x for x in _int_literals(oid) if x >= ALLOC_BASE]
        if lits:
            # may denote a fresh object: update both views by cases
            for L in lits:
                old = path.fresh.get((field, L), V.VNone)
                path.fresh[(field, L)] = simp(z3.If(oid == L, val.t, old))
        arr = self.heap_arr(path, field)
        path.heap[field] = simp(z3.Store(arr, oid, val.t))

    # ---------------------------------------------------------------- sets
    def set_arr(self, path, v):
        if hasattr(v, "arr") and not isinstance(v, Val):
            return v.arr       # module-level constant set
        sid = simp(V.sid(v.t))
        if z3.is_int_value(sid) and sid.as_long() in path.sets:
            return path.sets[sid.as_long()]
        return smt.setof(sid)

    def mk_set(self, path, arr, ann=None, own="fresh", frozen=None):
        sid = next(self.alloc)
        path.sets[sid] = simp(arr)
        if frozen is None:
            frozen = ann is not None and ann[0] == "frozenset"
        return Val(V.VSet(z3.IntVal(sid), z3.BoolVal(bool(frozen))), ann or ("set", None), own=own)

    def dict_parts(self, path, v: Val):
        did = simp(V.did(v.t))
        if z3.is_int_value(did) and did.as_long() in path.dicts:
            return path.dicts[did.as_long()]
        return (smt.dhas(did), smt.dget(did), smt.dkeys(did))

    def mk_dict(self, path, has, get, keys, ann=None, own="fresh"):
        did = next(self.alloc)
        path.dicts[did] = (simp(has), simp(get), simp(keys))
        return Val(V.VDict(z3.IntVal(did)), ann or ("dict", None, None), own=own)

    # ---------------------------------------------------------------- coercions
    def kind(self, v: Val):
        c = smt.ctor(simp(v.t))
        if c:
            return c
        if v.ann is not None and v.ann[0] == "union":
            arms = [a for a in v.ann[1] if a[0] != "none"]
            kinds = {self.kind(Val(v.t, a)) for a in arms}
            if len(kinds) == 1:
                return kinds.pop()
            return None
        if v.ann is not None:
            return {"str": "VStr", "int": "VInt", "bool": "VBool", "none": "VNone", "list": "VList",
                    "tuple": "VTuple", "set": "VSet", "frozenset": "VSet", "dict": "VDict", "rec": "VRec",
                    "obj": "VObj"}.get(v.ann[0])
        return None

    def as_str(self, path, v: Val, what="str operand"):
        t = simp(v.t)
        if smt.ctor(t) == "VStr":
            return t.arg(0)
        self.safety(path, V.is_VStr(t), f"{what} is a str")
        return simp(V.s(t))

    def as_int(self, path, v: Val, what="int operand"):
        t = simp(v.t)
        if smt.ctor(t) == "VInt":
            return t.arg(0)
        if smt.ctor(t) == "VBool":
            return z3.If(t.arg(0), z3.IntVal(1), z3.IntVal(0))
        self.safety(path, z3.Or(V.is_VInt(t), V.is_VBool(t)), f"{what} is an int")
        return simp(z3.If(V.is_VBool(t), z3.If(V.b(t), z3.IntVal(1), z3.IntVal(0)), V.i(t)))

    def as_seq(self, path, v: Val, what="sequence"):
        t = simp(v.t)
        c = smt.ctor(t)
        if c in ("VList", "VTuple"):
            return t.arg(0)
        k = self.kind(v)
        if k == "VList":
            return simp(V.l(t))
        if k == "VTuple":
            return simp(V.tp(t))
        if v.ann is not None and v.ann[0] == "seq":
            return simp(z3.If(V.is_VList(t), V.l(t), V.tp(t)))
        self.safety(path, z3.Or(V.is_VList(t), V.is_VTuple(t)), f"{what} is a list/tuple")
        return simp(z3.If(V.is_VList(t), V.l(t), V.tp(t)))

    def truthy(self, path, v):
        """z3 Bool for Python truthiness of v."""
        if not isinstance(v, Val):
            return z3.BoolVal(True)     # classes, functions, modules
        t = simp(v.t)
        c = smt.ctor(t)
        if c == "VNone":
            return z3.BoolVal(False)
        if c == "VBool":
            return t.arg(0)
        if c == "VInt":
            return t.arg(0) != 0
        if c == "VStr":
            return z3.Length(t.arg(0)) > 0
        if c in ("VList", "VTuple"):
            return z3.Length(t.arg(0)) > 0
        if c == "VRec":
            return z3.Length(t.arg(0)) > 0
        if c == "VSet":
            return self.set_arr(path, v) != smt.EMPTY_SET
        if c == "VDict":
            return z3.Length(self.dict_parts(path, v)[2]) > 0
        if c in ("VObj", "VCls", "VFun"):
            return z3.BoolVal(True)    # no __bool__/__len__ in the classes under contract (checked natively)
        if c == "VFloat":
            return self.func("float_nonzero", smt.IntS, smt.BoolS)(t.arg(0))
        # unknown constructor: full case analysis
        k = self.kind(v)
        if k == "VStr":
            return z3.Length(V.s(t)) > 0
        if k == "VBool":
            return V.b(t)
        if k == "VInt":
            return V.i(t) != 0
        if k in ("VList",):
            return z3.Length(V.l(t)) > 0
        if k == "VTuple":
            return z3.Length(V.tp(t)) > 0
        if k == "VObj":
            return z3.BoolVal(True)
        if k == "VSet":
            return self.set_arr(path, v) != smt.EMPTY_SET
        if k == "VDict":
            return z3.Length(self.dict_parts(path, v)[2]) > 0
        return z3.If(V.is_VNone(t), False,
               z3.If(V.is_VBool(t), V.b(t),
               z3.If(V.is_VInt(t), V.i(t) != 0,
               z3.If(V.is_VStr(t), z3.Length(V.s(t)) > 0,
               z3.If(V.is_VList(t), z3.Length(V.l(t)) > 0,
               z3.If(V.is_VTuple(t), z3.Length(V.tp(t)) > 0,
               z3.If(V.is_VRec(t), z3.Length(V.rk(t)) > 0,
               z3.If(V.is_VSet(t), smt.setof(V.sid(t)) != smt.EMPTY_SET,
               z3.If(V.is_VDict(t), z3.Length(smt.dkeys(V.did(t))) > 0,
               z3.If(V.is_VFloat(t), self.func("float_nonzero", smt.IntS, smt.BoolS)(V.fid(t)), True))))))))))

    def boolval(self, b):
        return Val(V.VBool(simp(b)), ("bool",))
