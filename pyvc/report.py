"""Verdicts, known findings, evidence."""
from __future__ import annotations

import json
import os
import re
import subprocess
import sys
import time

VERIF = os.path.dirname(os.path.dirname(os.path.abspath(__file__)))
OUT = os.path.join(VERIF, "out")
KNOWN = os.path.join(VERIF, "known_findings.json")
EXPECTED = os.path.join(VERIF, "specs", "expected.json")

TRUSTED_BASE = [
    "pyvc (VC generator: /verif/pyvc) — symbolic semantics of the Python subset, builtin models, fold-symbol induction schema",
    "z3 5.1.0 (in-process), /usr/bin/z3 4.8.12 and /usr/bin/cvc5 1.0.3 as fall-back back ends",
    "Python ints are mathematical (exact); floats are opaque tokens; SMT strings stop at U+2FFFF",
    "builtin axioms (str.split/strip/replace/upper, sorted, set iteration order, Counter, hash) instantiated at call sites",
    "external libraries (mypy, griffe, pathlib, logging, json): results havocked as functions of their arguments; "
    "class hierarchies read from the installed versions",
    "declared shapes of model objects (dataclass field annotations of /repo, specs/world.py for mypy objects) as preconditions",
    "single-threaded execution; no monkey-patching of the classes under contract",
    "contract and spec code is total on its stated domain (an index, key or attribute read inside a spec is defined)",
    "loops with sidecar invariants: partial correctness (termination of while loops is not proved); result shapes of a few "
    "external functions as declared in specs/world.py EXTERNAL_RETURNS",
    "solver answers: `unsat` is trusted; an in-process `sat` counts only with a model that evaluates every hypothesis to true "
    "and the goal to false; a `sat` of a command-line back end is treated as unknown",
]


def load_known():
    if not os.path.exists(KNOWN):
        return {"findings": [], "fixed": []}
    with open(KNOWN, encoding="utf-8") as f:
        return json.load(f)


def load_expected():
    if not os.path.exists(EXPECTED):
        return {}
    with open(EXPECTED, encoding="utf-8") as f:
        return json.load(f)


def clause_key(rec_target, ob):
    return f"{rec_target}/{ob['clause']}"


def native_in_subprocess(fn, *args, timeout=120):
    """Run a pyvc.native function in a fresh interpreter (the real code is imported there, never in the prover)."""
    code = (f"import json,sys\nsys.path.insert(0,{VERIF!r})\nfrom pyvc import native\n"
            f"r = native.{fn}(*json.loads(sys.argv[1]))\nprint('@@'+json.dumps(r))\n")
    env = dict(os.environ)
    env["PYTHONPATH"] = f"{VERIF}:{os.environ.get('PYVC_REPO_SRC', '/repo/src')}"
    try:
        r = subprocess.run(["/venv/bin/python", "-c", code, json.dumps(args)], capture_output=True, text=True,
                           timeout=timeout, env=env)
    except subprocess.TimeoutExpired:
        return None, "timeout"
    for line in r.stdout.splitlines():
        if line.startswith("@@"):
            return json.loads(line[2:]), ""
    return None, (r.stderr or r.stdout)[-1500:]


def finish(prop, tier, seed, recs, assumed, reg, wall, timeout_ms, bounded=()):
    known = load_known()
    exp_all = load_expected()
    # clauses proved on the unchanged tree in this tier (the thorough tier proves more than the quick tier)
    expected = exp_all.get(tier, {}).get(prop, []) if ("quick" in exp_all or "thorough" in exp_all) else exp_all.get(prop, [])
    os.makedirs(os.path.join(OUT, prop), exist_ok=True)
    lines = []
    violations = []
    undecided = []
    errors = []
    n_ob = n_dis = 0
    by_backend = {}
    solver_s = 0.0
    functions = []
    samples = []
    assumptions = set()
    sha = {}
    clause_status = {}
    for rec in recs:
        if rec.get("error"):
            errors.append((rec.get("target"), rec["error"]))
            continue
        sha.update(rec.get("sha", {}))
        functions.append({"target": rec["target"], "contract": f"{rec['spec_mod']}.{rec['contract']}",
                          "paths": rec["paths"], "obligations": len(rec["records"]),
                          "gen_s": round(rec["gen_s"], 2)})
        if rec.get("unsupported"):
            undecided.append((rec["target"], "outside the verified subset: " + rec["unsupported"]))
        c = reg.contracts[rec["target"]]
        for ob in rec["records"]:
            n_ob += 1
            solver_s += ob["seconds"]
            assumptions.update(ob["notes"])
            ck = clause_key(rec["target"], ob)
            if ob["status"] == "discharged":
                n_dis += 1
                by_backend[ob["backend"]] = by_backend.get(ob["backend"], 0) + 1
                clause_status.setdefault(ck, True)
                if len(samples) < 6 and ob["backend"] != "simplifier":
                    samples.append({"obligation": ob["name"], "kind": ob["kind"], "target": rec["target"],
                                    "clause": ob["clause"], "hypotheses": ob["nhyps"], "goal": ob["goal"][:300],
                                    "backend": ob["backend"], "seconds": ob["seconds"]})
                continue
            clause_status[ck] = False
            # ---- not discharged: look for a failing input natively, then classify
            kw, detail = None, ""
            if ob["kind"] in ("ensures", "safety") and c.params:
                res, err = native_in_subprocess("search", rec["target"], rec["spec_mod"], rec["contract"],
                                                ob["clause"], c.params, ob.get("model_vals") or {})
                if res:
                    kw, detail = res[0], res[1]
            rp = os.path.join(OUT, prop, "replay_" + re.sub(r"[^A-Za-z0-9_.#-]", "_", ob["name"]) + ".py")
            from .native import write_replay
            write_replay(rp, prop=prop, name=ob["name"], target=rec["target"], clause=ob["clause"],
                         backend=ob["backend"], status=ob["status"], where=ob["where"],
                         model=(ob["model"] + ("\nnative witness: " + detail if detail else "")), goal=ob["goal"],
                         kwargs=kw, spec_mod=rec["spec_mod"], cname=rec["contract"])
            if kw is not None:
                violations.append((ob, rp, ""))
            elif ck in expected:
                # proved on the unchanged tree, not provable now even with the whole portfolio
                violations.append((ob, rp, " no-failing-input-found"))
            else:
                undecided.append((ob["name"], f"not discharged ({ob['status']}) within {timeout_ms} ms, no failing input found, and the clause "
                                              f"is not among those proved on the unchanged tree ({ob['model'][:80]})"))
    # ---- bounded stand-ins (never counted as proved): a failing concrete case is a replayed counterexample
    bounded_ev = []
    for b in bounded:
        if b.get("error"):
            errors.append((b["target"], "bounded stand-in crashed: " + b["error"]))
            continue
        bounded_ev.append({"target": b["target"], "cases": b["cases"], "cases_in_contract": b["in_contract"],
                           "violations": len(b["violations"]), "label": "bounded (small-scope enumeration, not a proof)"})
        for cl, show, detail in b["violations"][:3]:
            rp = os.path.join(OUT, prop, "replay_bounded_" + re.sub(r"[^A-Za-z0-9_.#-]", "_", b["contract"] + "_" + cl) + ".py")
            with open(rp, "w", encoding="utf-8") as f:
                f.write(f'''#!/venv/bin/python
"""Bounded stand-in: the executable contract {b["spec_mod"]}.{b["contract"]} failed natively on the real code.
target : {b["target"]}
clause : {cl}
case   : {show}
detail : {detail}
"""
import sys, os
sys.path.insert(0, os.environ.get("PYVC_HOME", "/verif")); sys.path.insert(0, os.environ.get("PYVC_REPO_SRC", "/repo/src"))
from pyvc import native
r = native.run_cases({b["target"]!r}, {b["spec_mod"]!r}, {b["contract"]!r}, os.environ.get("VERIF_TIER", "quick"))
for v in r["violations"]:
    print("CONFIRMED", v)
print("cases", r["cases"], "violations", len(r["violations"]))
sys.exit(1 if r["violations"] else 0)
''')
            os.chmod(rp, 0o755)
            violations.append(({"name": f"{prop}/{b['target'].split(':')[1]}/bounded:{cl}", "kind": "bounded", "status": "failed",
                                "backend": "native", "where": show[:160]}, rp, ""))
            break
    # ---- known findings: region excluded from the obligation, witness replayed on the real code
    kf_lines = []
    kf_evidence = []
    for f in known.get("findings", []):
        if f.get("property") != prop and prop not in f.get("properties", []):
            continue
        w = f.get("witness")
        if not w:
            continue
        res, err = native_in_subprocess("run_case", f["target"], w["spec_mod"], w["contract"], w["clause"], w["kwargs"])
        verdict = res[0] if res else "error"
        kf_evidence.append({"id": f["id"], "target": f["target"], "clause": w["clause"], "replay": verdict,
                            "detail": (res[1] if res else err)[:200]})
        if verdict == "violates":
            kf_lines.append(f"KNOWN-FINDING: property={prop} {f['id']} {f['target']}/{w['clause']} {f['what']} "
                            f"witness={json.dumps(w['kwargs'], ensure_ascii=True)}")
        elif verdict == "error":
            errors.append((f["id"], "known-finding witness could not be replayed: " + str(err)[:300]))
    for ln in kf_lines:
        print(ln)
    # ---- vacuity: zero obligations is a checker error
    rc = 0
    if errors:
        for t, e in errors:
            print(f"CHECKER-ERROR property={prop} {t}: {e[-800:]}")
        rc = 3
    if n_ob == 0 and rc == 0 and not any(b.get("cases") for b in bounded):
        print(f"CHECKER-ERROR property={prop} zero obligations generated")
        rc = 3
    for ob, rp, suffix in violations:
        print(f"VIOLATION property={prop} replay={rp}{suffix}")
        print(f"  obligation {ob['name']} [{ob['kind']}] status={ob['status']} backend={ob['backend']} {ob['where']}")
    if violations:
        rc = 1
    elif undecided and rc == 0:
        for n, why in undecided:
            print(f"UNDECIDED property={prop} obligation={n} reason={why}")
        rc = 2
    n_cases = sum(b.get("cases", 0) for b in bounded if not b.get("error"))
    n_in = sum(b.get("in_contract", 0) for b in bounded if not b.get("error"))
    bsamples = [{"bounded_target": b["target"], "cases": b["cases"], "violations": len(b["violations"])} for b in bounded if not b.get("error")][:4]
    ev = {
        "property_id": prop, "tier": tier, "seed": seed, "level": "proof" if n_ob > 0 else "exploration",
        "coverage": {
            "evaluations": n_cases + n_ob,
            "distinct_nontrivial": n_in + n_dis,
            "rule": "deductive part: one evaluation per proof obligation generated from /repo's source (non-trivial = discharged by a "
                    "solver or the simplifier); bounded part (labelled, never counted as proved): the executable contract of each "
                    "listed function is run natively on the concrete cases its sidecar generator enumerates (small-scope types, "
                    "parameters, identifiers; real API models of the fixture packages); a case is non-trivial when it satisfies the "
                    "contract's precondition; cases are distinct by construction of the enumerators",
            "obligations": n_ob, "discharged": n_dis,
            "checker_cmd": f"{VERIF}/check {prop} --tier {tier}",
            "trusted_base": TRUSTED_BASE,
            "functions_under_contract": functions,
            "discharged_by_backend": by_backend,
            "solver_seconds": round(solver_s, 2),
            "per_query_budget_ms": timeout_ms,
            "assumed_contracts": [c.target for c in assumed],
            "known_findings": kf_evidence,
            "bounded_standins": bounded_ev,
            "quick_tier_restrictions": [c.target for c in reg.order if getattr(c, "quick_restricted", False) and prop in (c.props or [])],
            "undecided": [{"what": n, "why": w} for n, w in undecided],
            "source_sha256": sha,
            "samples": (samples + bsamples) or [{"note": "nothing to show"}],
            "clauses": {k: ("discharged" if v else "NOT discharged") for k, v in sorted(clause_status.items())},
        },
        "assumptions": sorted(assumptions),
        "wall_s": round(wall, 2),
        "violations": len(violations),
    }
    os.makedirs(os.path.join(VERIF, "evidence"), exist_ok=True)
    with open(os.path.join(VERIF, "evidence", f"{prop}.json"), "w", encoding="utf-8") as f:
        json.dump(ev, f, indent=1, ensure_ascii=True)
    print(f"{prop}: obligations={n_ob} discharged={n_dis} functions={len(functions)} known-findings={len(kf_lines)} "
          f"violations={len(violations)} undecided={len(undecided)} wall={wall:.1f}s exit={rc}")
    return rc
