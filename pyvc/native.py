"""Native side: the sidecar contracts are executable. Replays counter-models and known-finding witnesses on the
real code, and searches small input spaces for a failing input when the solvers give no usable model."""
from __future__ import annotations

import importlib
import itertools
import json
import os
import sys

REPO_SRC = os.environ.get("PYVC_REPO_SRC", "/repo/src")


def _setup_path():
    for p in (REPO_SRC, os.path.dirname(os.path.dirname(os.path.abspath(__file__)))):
        if p not in sys.path:
            sys.path.insert(0, p)


def resolve_target(target):
    _setup_path()
    modname, qual = target.split(":")
    obj = importlib.import_module(modname)
    owner = None
    for part in qual.split("."):
        owner = obj
        name = part
        if part.startswith("__") and not part.endswith("__") and isinstance(owner, type):
            name = f"_{owner.__name__.lstrip('_')}{part}"
        obj = getattr(obj, name)
    return owner, obj


def decode(v):
    """Witness JSON -> Python value."""
    if isinstance(v, dict):
        if "str" in v:
            return v["str"]
        if "int" in v:
            return v["int"]
        if "bool" in v:
            return v["bool"]
        if "none" in v:
            return None
        if "enum" in v:
            mod, qual = v["enum"].split(":")
            o = importlib.import_module(mod)
            for p in qual.split("."):
                o = getattr(o, p)
            return o
        if "py" in v:
            # arbitrary expression evaluated in the sidecar module namespace (used by stored witnesses only)
            return ("py", v["py"])
        if "list" in v:
            return [decode(x) for x in v["list"]]
    return v


def contract_class(spec_mod, cname):
    _setup_path()
    m = importlib.import_module(spec_mod)
    return m, getattr(m, cname)


def run_case(target, spec_mod, cname, clause, kwargs):
    """Call the real function and evaluate one contract clause natively.
    Returns (verdict, detail): verdict in {'violates','holds','raises','precondition-false','error'}"""
    import inspect
    m, cls = contract_class(spec_mod, cname)
    args = {}
    if "__all__" in kwargs:
        args = dict(eval(kwargs["__all__"]["py"], vars(m)))
        kwargs = {}
    for k, v in kwargs.items():
        d = decode(v)
        if isinstance(d, tuple) and d and d[0] == "py":
            d = eval(d[1], vars(m))
        args[k] = d
    if hasattr(cls, "native_args"):
        args = cls.native_args(**args)
    for rn in [n for n in dir(cls) if n.startswith("requires")]:
        f = getattr(cls, rn)
        want = inspect.signature(f).parameters
        try:
            if not f(**{k: v for k, v in args.items() if k in want}):
                return "precondition-false", rn
        except Exception as e:   # noqa: BLE001
            return "error", f"requires raised {e!r}"
    owner, fn = resolve_target(target)
    call_args = dict(args)
    if hasattr(cls, "native_call"):
        caller = lambda: cls.native_call(fn, **call_args)   # noqa: E731
    else:
        caller = lambda: fn(**call_args)                     # noqa: E731
    raised = None
    result = None
    try:
        result = caller()
    except Exception as e:   # noqa: BLE001
        raised = e
    if clause in ("no-raise",) or clause.startswith("safe:"):
        if raised is not None:
            return "violates", f"raised {raised!r}"
        return "holds", f"returned {result!r}"
    if raised is not None:
        rname = f"raises_{type(raised).__name__}"
        if hasattr(cls, rname):
            f = getattr(cls, rname)
            want = inspect.signature(f).parameters
            ok = f(**{k: v for k, v in args.items() if k in want})
            return ("holds" if ok else "violates"), f"raised {raised!r}; {rname} -> {ok}"
        if getattr(cls, "raises", None) == ():
            return "violates", f"raised {raised!r} but the contract allows no exception"
        return "raises", repr(raised)
    if clause.startswith("raises_"):
        en = clause.split(".")[0]
        if hasattr(cls, en):
            f = getattr(cls, en)
            want = inspect.signature(f).parameters
            cond = f(**{k: v for k, v in args.items() if k in want})
            return ("violates" if cond else "holds"), f"returned {result!r}; {en} -> {cond}"
        return "holds", ""
    fname = "ensures_" + clause if hasattr(cls, "ensures_" + clause) else ("ensures" if clause == "post" else None)
    if fname is None or not hasattr(cls, fname):
        return "error", f"no native clause for {clause}"
    f = getattr(cls, fname)
    want = inspect.signature(f).parameters
    kw = {k: v for k, v in args.items() if k in want}
    if "result" in want:
        kw["result"] = result
    try:
        ok = f(**kw)
    except Exception as e:   # noqa: BLE001
        return "error", f"clause raised {e!r}"
    return ("holds" if ok else "violates"), f"result={result!r}"


# ------------------------------------------------------------------------------------------------ small-scope search
ALPHABET = ["a", "B", "_", "1"]


def _strings(maxlen):
    yield ""
    for n in range(1, maxlen + 1):
        for t in itertools.product(ALPHABET, repeat=n):
            yield "".join(t)


def candidates(ann_text, spec_module, extra_strings=()):
    a = (ann_text or "").strip()
    if a == "str":
        seen = set()
        for s in list(extra_strings) + list(_strings(4)):
            if s not in seen:
                seen.add(s)
                yield s
        return
    if a == "bool":
        yield False
        yield True
        return
    if a == "int":
        yield from (-2, -1, 0, 1, 2, 3, 10)
        return
    # enum classes visible from the sidecar module
    obj = None
    try:
        obj = eval(a, vars(spec_module))
    except Exception:   # noqa: BLE001
        obj = None
    import enum
    if isinstance(obj, type) and issubclass(obj, enum.Enum):
        yield from list(obj)
        return
    return


def search(target, spec_mod, cname, clause, params, model_vals, budget=20000):
    """Look for a failing input of `clause` natively: the solver's model first, then small-scope enumeration of
    scalar parameters. Returns (kwargs_json, detail) or None."""
    import inspect
    m, cls = contract_class(spec_mod, cname)
    names = list(params)
    # 1. the model
    if model_vals and all(n in model_vals and "term" not in model_vals[n] for n in names if params[n] in ("str", "int", "bool")):
        kw = {n: model_vals[n] for n in names if n in model_vals and "term" not in model_vals[n]}
        if len(kw) == len(names):
            try:
                v, d = run_case(target, spec_mod, cname, clause, kw)
                if v == "violates":
                    return kw, d
            except Exception:   # noqa: BLE001
                pass
    # 2. enumeration (only when every parameter has a finite candidate generator)
    extra = [v["str"] for v in (model_vals or {}).values() if "str" in v]
    kws = getattr(m, "KW33", [])
    extra += sorted(kws)[:40] if kws else []
    gens = []
    for n in names:
        c = list(itertools.islice(candidates(params[n], m, extra), 2000))
        if not c:
            return None
        gens.append(c)
    count = 0
    for combo in itertools.product(*gens):
        count += 1
        if count > budget:
            break
        kw = {}
        for n, v in zip(names, combo):
            kw[n] = encode(v)
        try:
            verdict, d = run_case(target, spec_mod, cname, clause, kw)
        except Exception:   # noqa: BLE001
            continue
        if verdict == "violates":
            return kw, d
    return None


def encode(v):
    import enum
    if isinstance(v, bool):
        return {"bool": v}
    if isinstance(v, int):
        return {"int": v}
    if isinstance(v, str):
        return {"str": v}
    if v is None:
        return {"none": True}
    if isinstance(v, enum.Enum):
        return {"enum": f"{type(v).__module__}:{type(v).__qualname__}.{v.name}"}
    raise TypeError(v)


REPLAY_TEMPLATE = '''#!/venv/bin/python
"""Replay of a failed proof obligation on the real code.

property   : {prop}
obligation : {name}
target     : {target}
clause     : {clause}
solver     : {backend}  status={status}
where      : {where}

--- solver output / counter-model -------------------------------------------------------------
{model}
--- goal --------------------------------------------------------------------------------------
{goal}
"""
import json, os, sys
sys.path.insert(0, os.environ.get("PYVC_HOME", "/verif")); sys.path.insert(0, os.environ.get("PYVC_REPO_SRC", "/repo/src"))
KW = json.loads({kwargs!r})
if KW is None:
    print("NO-INPUT: the verifier produced no concrete failing input for this obligation (no-failing-input-found)")
    sys.exit(1)
from pyvc.native import run_case
verdict, detail = run_case({target!r}, {spec_mod!r}, {cname!r}, {clause!r}, KW)
print("input:", KW)
print("CONFIRMED" if verdict == "violates" else "NOT-REPRODUCED", {clause!r}, verdict, detail)
sys.exit(1 if verdict == "violates" else 0)
'''


def write_replay(path, **kw):
    kw = dict(kw)
    kw["kwargs"] = json.dumps(kw.get("kwargs"))
    for k in ("model", "goal"):
        kw[k] = (kw.get(k) or "").replace('"""', "'''").replace("\\", "\\\\")
    os.makedirs(os.path.dirname(path), exist_ok=True)
    with open(path, "w", encoding="utf-8") as f:
        f.write(REPLAY_TEMPLATE.format(**kw))
    os.chmod(path, 0o755)


# ------------------------------------------------------------------------------------------------ executable contracts
import ast as _ast
import copy as _copy
import inspect as _inspect


class _OldRewriter(_ast.NodeTransformer):
    def __init__(self):
        self.olds = []

    def visit_Call(self, node):
        self.generic_visit(node)
        if isinstance(node.func, _ast.Name) and node.func.id == "old" and len(node.args) == 1:
            self.olds.append(node.args[0])
            return _ast.Subscript(value=_ast.Name(id="__old__", ctx=_ast.Load()),
                                  slice=_ast.Constant(value=len(self.olds) - 1), ctx=_ast.Load())
        return node


_CLAUSE_CACHE = {}


def compile_clause(module, cls, fname):
    """(pre, post): pre(**params) evaluates the old(...) expressions of the clause in the pre-state (deep-copied);
    post(__old__, **params) evaluates the clause with old(E) replaced by the saved values."""
    key = (module.__name__, cls.__name__, fname)
    if key in _CLAUSE_CACHE:
        return _CLAUSE_CACHE[key]
    src = _inspect.getsource(module)
    tree = _ast.parse(src)
    fnode = None
    for st in tree.body:
        if isinstance(st, _ast.ClassDef) and st.name == cls.__name__:
            for b in st.body:
                if isinstance(b, _ast.FunctionDef) and b.name == fname:
                    fnode = b
    if fnode is None:
        raise KeyError(fname)
    rw = _OldRewriter()
    fnode = _copy.deepcopy(fnode)
    fnode.decorator_list = []
    fnode = rw.visit(fnode)
    params = [a.arg for a in fnode.args.args]
    pre_params = [p for p in params if p != "result"]
    pre_src = _ast.FunctionDef(name="__pre", args=_ast.arguments(posonlyargs=[], args=[_ast.arg(arg=p) for p in pre_params],
                                                                 kwonlyargs=[], kw_defaults=[], defaults=[]),
                               body=[_ast.Return(value=_ast.List(elts=rw.olds, ctx=_ast.Load()))], decorator_list=[])
    fnode.name = "__post"
    fnode.args.args = [_ast.arg(arg="__old__")] + fnode.args.args
    mod = _ast.Module(body=[pre_src, fnode], type_ignores=[])
    _ast.fix_missing_locations(mod)
    ns = dict(vars(module))
    exec(compile(mod, f"<clause {cls.__name__}.{fname}>", "exec"), ns)
    res = (ns["__pre"], ns["__post"], pre_params, params)
    _CLAUSE_CACHE[key] = res
    return res


def check_case(target, module, cls, case, clauses=None):
    """Run the real function on one concrete case and evaluate the contract natively.
    case = {"self": obj | None, "kwargs": {...}}. Returns list of (clause, detail) violations."""
    owner, fn = resolve_target(target)
    selfobj = case.get("self")
    kwargs = dict(case.get("kwargs", {}))
    # contract parameters denote the values at entry: plain data (dict/list/set/tuple) is deep-copied before the
    # call; objects are passed by reference, so clauses about them (and `old(...)`) see their real post-state
    def _entry_copy(v):
        if isinstance(v, (dict, list, set, tuple)):
            try:
                return _copy.deepcopy(v)
            except Exception:   # noqa: BLE001  (containers of external objects: shallow copy)
                return _copy.copy(v)
        return v
    env = {k: _entry_copy(v) for k, v in kwargs.items()}
    if selfobj is not None:
        env["self"] = selfobj
    names = [n for n in dir(cls) if n.startswith("ensures")]
    if clauses:
        names = [n for n in names if n[len("ensures"):].lstrip("_") in clauses or n in clauses]
    compiled = {}
    pres = {}
    for n in names:
        f = getattr(cls, n)
        meta = getattr(f, "_clause", {})
        if meta.get("mode") == "use":
            continue
        pre, post, pre_params, params = compile_clause(module, cls, n)
        compiled[n] = (post, params)
        try:
            pres[n] = _copy.deepcopy(pre(**{k: env[k] for k in pre_params if k in env}))
        except Exception as e:   # noqa: BLE001
            return [(n, f"old(...) raised {e!r}")]
    # preconditions
    for rn in [n for n in dir(cls) if n.startswith("requires") and not n.startswith("requires_quick")]:
        f = getattr(cls, rn)
        want = _inspect.signature(f).parameters
        try:
            if not f(**{k: v for k, v in env.items() if k in want}):
                return None     # outside the contract
        except Exception:   # noqa: BLE001
            return None
    raised = None
    result = None
    # the code under test must not see /verif on sys.path (griffe names a package relative to the sys.path entry
    # that contains it, which would silently detach the fixture packages from their docstrings)
    saved_path = list(sys.path)
    from pyvc import HOME as _home
    sys.path[:] = [p for p in sys.path if os.path.abspath(p or ".") != _home]
    try:
        if selfobj is not None:
            result = fn(selfobj, **kwargs)
        else:
            result = fn(**kwargs)
    except Exception as e:   # noqa: BLE001
        raised = e
    finally:
        sys.path[:] = saved_path
    bad = []
    if raised is not None:
        rname = f"raises_{type(raised).__name__}"
        if hasattr(cls, rname):
            f = getattr(cls, rname)
            want = _inspect.signature(f).parameters
            if not f(**{k: v for k, v in env.items() if k in want}):
                bad.append((rname, f"raised {raised!r} although the raise condition is false"))
        elif getattr(cls, "raises", None) == ():
            bad.append(("no-raise", f"raised {raised!r}"))
        return bad
    for rname in [n for n in dir(cls) if n.startswith("raises_")]:
        f = getattr(cls, rname)
        want = _inspect.signature(f).parameters
        if f(**{k: v for k, v in env.items() if k in want}):
            bad.append((rname, f"returned {result!r} although the raise condition holds"))
    for n, (post, params) in compiled.items():
        kw = {k: env[k] for k in params if k in env}
        if "result" in params:
            kw["result"] = result
        try:
            ok = post(pres[n], **kw)
        except Exception as e:   # noqa: BLE001
            bad.append((n, f"clause raised {e!r} (result={result!r})"))
            continue
        if not ok:
            bad.append((n, f"result={result!r}"))
    return bad


def run_cases(target, spec_mod, cname, tier="quick", seed=0, limit=200000):
    """Bounded stand-in / spec validation: the contract's own case generator, real code vs executable contract.
    Returns {"cases": n, "in_contract": m, "violations": [[clause, case-repr, detail], ...]}"""
    module, cls = contract_class(spec_mod, cname)
    if not hasattr(cls, "native_cases"):
        return {"cases": 0, "in_contract": 0, "violations": [], "note": "no native_cases"}
    n = m = 0
    out = []
    for case in cls.native_cases(seed, tier):
        n += 1
        if n > limit:
            break
        show = repr(case.get("kwargs"))[:400]
        try:
            bad = check_case(target, module, cls, case)
        except Exception as e:   # noqa: BLE001
            out.append(["harness", show, repr(e)])
            continue
        if bad is None:
            continue
        m += 1
        for cl, d in bad:
            if len(out) < 20:
                out.append([cl, show, d[:400]])
    return {"cases": n, "in_contract": m, "violations": out}
