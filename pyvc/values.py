"""Python-side value wrappers, class table and declared shapes (annotations of model fields)."""
from __future__ import annotations

import ast
import importlib
from dataclasses import dataclass, field

import z3

from . import smt
from .smt import V


class Unsupported(Exception):
    """Construct outside the verified subset: the obligation is undecided, never a violation."""


class Val:
    """A symbolic Python value: V-sorted term + declared shape + ownership."""

    __slots__ = ("t", "ann", "own", "deep", "src", "unord", "root")

    def __init__(self, t, ann=None, own="imm", deep=True, src=None):
        self.t = t
        self.ann = ann          # Ann tuple or None
        self.own = own          # 'imm' | 'fresh' | 'borrow'
        self.deep = deep        # for fresh containers: everything mutable reachable is fresh too
        self.src = src          # provenance (lvalue path) for write-through
        self.unord = False      # order of this sequence depends on set/dict iteration order
        self.root = getattr(src[1], "root", None) if (src and isinstance(src[1], Val)) else None   # parameter this value is reachable from

    def __repr__(self):
        return f"Val({self.t}, ann={self.ann}, own={self.own})"


# ---- concrete (non-V) Python-side values
@dataclass
class ModRef:
    name: str
    extern: bool = False


@dataclass(repr=False)
class FuncRef:
    mi: object            # ModuleInfo
    cls: object           # ClassInfo | None
    node: ast.FunctionDef
    kind: str = "function"   # function | method | staticmethod | classmethod | property

    @property
    def qualname(self):
        return (self.cls.name + "." if self.cls else "") + self.node.name

    @property
    def target(self):
        return f"{self.mi.name}:{self.qualname}"


@dataclass
class ClassRef:
    info: "ClassInfo"


@dataclass
class Builtin:
    name: str


@dataclass
class Bound:
    selfv: object
    callee: object        # FuncRef | str (builtin method name)


@dataclass
class Closure:
    node: object          # ast.Lambda | ast.FunctionDef
    env: dict
    mi: object
    selfv: object = None


@dataclass
class ExtFunc:
    qualname: str


@dataclass
class SpecConst:
    """A Python constant object kept concretely (e.g. a set of keyword strings)."""
    value: object


# ---- class table
@dataclass(repr=False)
class ClassInfo:
    cid: int
    name: str
    qualname: str
    bases: list                      # list[ClassInfo]
    mi: object = None                # ModuleInfo for repo classes
    node: ast.ClassDef | None = None
    extern: object = None            # native class for external classes
    fields: dict = field(default_factory=dict)     # name -> Ann (declared shape)
    field_defaults: dict = field(default_factory=dict)  # name -> ast expr | ('factory', ast expr)
    dataclass: bool = False
    frozen: bool = False
    dc_eq: bool = True
    compare_fields: list = field(default_factory=list)
    methods: dict = field(default_factory=dict)    # name -> FuncRef
    class_consts: dict = field(default_factory=dict)  # name -> ast expr (ClassVar / enum members)
    is_enum: bool = False
    abstract: bool = False
    enum_members: list = field(default_factory=list)  # [(name, value ast/py)]
    subclasses: list = field(default_factory=list)

    def mro(self):
        out = [self]
        for b in self.bases:
            for c in b.mro():
                if c not in out:
                    out.append(c)
        return out

    def instance_classes(self):
        """Classes an instance declared with this class may have (abstract classes have no direct instances)."""
        return [c for c in self.all_subclasses() if not c.abstract] or [self]

    def all_subclasses(self):
        out = [self]
        for s in self.subclasses:
            for c in s.all_subclasses():
                if c not in out:
                    out.append(c)
        return out

    def lookup(self, name):
        for c in self.mro():
            if name in c.methods:
                return c.methods[name]
        return None

    def lookup_const(self, name):
        for c in self.mro():
            if name in c.class_consts:
                return c, c.class_consts[name]
        return None

    def all_fields(self):
        out = {}
        for c in reversed(self.mro()):
            out.update(c.fields)
        return out

    def __hash__(self):
        return hash(self.cid)

    def __repr__(self):
        return f"<class {self.qualname}#{self.cid}>"

    def __eq__(self, o):
        return isinstance(o, ClassInfo) and o.cid == self.cid


class ClassTable:
    def __init__(self, src):
        self.src = src
        self.by_qual: dict[str, ClassInfo] = {}
        self.by_cid: dict[int, ClassInfo] = {}
        self._next = 100
        self.object_ = self._mk("object", "builtins.object", [])
        # exceptions used by the repo
        self.base_exc = self._mk("BaseException", "builtins.BaseException", [self.object_])
        self.exc = self._mk("Exception", "builtins.Exception", [self.base_exc])
        for n, b in [("ValueError", "Exception"), ("TypeError", "Exception"), ("KeyError", "LookupError"),
                     ("LookupError", "Exception"), ("IndexError", "LookupError"), ("AttributeError", "Exception"),
                     ("AssertionError", "Exception"), ("StopIteration", "Exception"), ("NotImplementedError", "Exception")]:
            if "builtins." + n not in self.by_qual:
                if "builtins." + b not in self.by_qual:
                    self._mk(b, "builtins." + b, [self.exc])
                self._mk(n, "builtins." + n, [self.by_qual["builtins." + b]])
        self.notimpl = self._mk("NotImplementedType", "builtins.NotImplementedType", [self.object_])

    def _mk(self, name, qual, bases, **kw):
        ci = ClassInfo(self._next, name, qual, bases, **kw)
        self._next += 1
        self.by_qual[qual] = ci
        self.by_cid[ci.cid] = ci
        for b in bases:
            b.subclasses.append(ci)
        return ci

    # -- repo / spec classes from AST
    def from_ast(self, mi, node: ast.ClassDef, parse_ann) -> ClassInfo:
        qual = f"{mi.name}.{node.name}"
        if qual in self.by_qual:
            return self.by_qual[qual]
        bases = []
        is_enum = False
        for b in node.bases:
            bname = ast.unparse(b)
            if bname in ("PythonEnum", "Enum", "IntEnum", "enum.Enum"):
                is_enum = True
                continue
            r = None
            if isinstance(b, ast.Name):
                r = self.src.resolve(mi.name, b.id)
            if r and r[0] == "def" and isinstance(r[2], ast.ClassDef):
                bases.append(self.from_ast(r[1], r[2], parse_ann))
            elif bname in ("Exception", "ValueError", "TypeError"):
                bases.append(self.by_qual["builtins." + bname])
        if not bases:
            bases = [self.object_]
        ci = self._mk(node.name, qual, bases, mi=mi, node=node, is_enum=is_enum)
        # decorators
        for d in node.decorator_list:
            txt = ast.unparse(d)
            if txt.startswith("dataclass"):
                ci.dataclass = True
                if isinstance(d, ast.Call):
                    for kw in d.keywords:
                        if kw.arg == "frozen" and isinstance(kw.value, ast.Constant):
                            ci.frozen = bool(kw.value.value)
                        if kw.arg == "eq" and isinstance(kw.value, ast.Constant):
                            ci.dc_eq = bool(kw.value.value)
        from .values import FuncRef  # noqa
        for st in node.body:
            if isinstance(st, ast.FunctionDef):
                kind = "method"
                for d in st.decorator_list:
                    dn = ast.unparse(d)
                    if dn in ("staticmethod", "classmethod", "property"):
                        kind = dn
                    if dn.endswith(".setter"):
                        kind = "setter"
                if any(ast.unparse(d) in ("abstractmethod", "abc.abstractmethod") for d in st.decorator_list):
                    ci.abstract = True
                if kind != "setter":
                    ci.methods[st.name] = FuncRef(mi, ci, st, kind)
            elif isinstance(st, ast.AnnAssign) and isinstance(st.target, ast.Name):
                ann_txt = ast.unparse(st.annotation)
                if ann_txt.startswith("ClassVar"):
                    if st.value is not None:
                        ci.class_consts[st.target.id] = st.value
                    continue
                ci.fields[st.target.id] = parse_ann(mi, st.annotation)
                compare = True
                if st.value is not None:
                    if isinstance(st.value, ast.Call) and ast.unparse(st.value.func) in ("field", "dataclasses.field"):
                        for kw in st.value.keywords:
                            if kw.arg == "default":
                                ci.field_defaults[st.target.id] = kw.value
                            elif kw.arg == "default_factory":
                                ci.field_defaults[st.target.id] = ("factory", kw.value)
                            elif kw.arg == "compare" and isinstance(kw.value, ast.Constant):
                                compare = bool(kw.value.value)
                    else:
                        ci.field_defaults[st.target.id] = st.value
                if compare:
                    ci.compare_fields.append(st.target.id)
            elif isinstance(st, ast.Assign) and len(st.targets) == 1 and isinstance(st.targets[0], ast.Name):
                if is_enum:
                    ci.enum_members.append((st.targets[0].id, st.value))
                else:
                    ci.class_consts[st.targets[0].id] = st.value
        # instance attributes declared in __init__ (self.x: T = ...)
        if not ci.dataclass:
            for m in ci.methods.values():
                for st in ast.walk(m.node):
                    if isinstance(st, ast.AnnAssign) and isinstance(st.target, ast.Attribute) and \
                            isinstance(st.target.value, ast.Name) and st.target.value.id == "self":
                        attr = st.target.attr
                        if attr.startswith("__") and not attr.endswith("__"):
                            attr = f"_{ci.name.lstrip('_')}{attr}"
                        ci.fields.setdefault(attr, parse_ann(mi, st.annotation))
        return ci

    # -- external classes (mypy, griffe, pathlib): facts read from the installed library
    def from_native(self, cls) -> ClassInfo:
        qual = f"{cls.__module__}.{cls.__qualname__}"
        if qual in self.by_qual:
            return self.by_qual[qual]
        if cls is object:
            return self.object_
        # builtin bases (str/int mixed into enums, ...) are value kinds of the engine, not object classes
        bases = [self.from_native(b) for b in cls.__bases__ if b is not object and b.__module__ != "builtins"] or [self.object_]
        import enum as _enum
        is_enum = isinstance(cls, type) and issubclass(cls, _enum.Enum)
        ci = self._mk(cls.__name__, qual, bases, extern=cls, is_enum=is_enum)
        if is_enum:
            ci.enum_members = [(m.name, m.value) for m in cls]
        return ci

    def register_native_tree(self, cls):
        """Register cls and all its (transitive) subclasses currently loaded."""
        ci = self.from_native(cls)
        try:
            subs = cls.__subclasses__()
        except TypeError:
            subs = []
        for s in subs:
            self.register_native_tree(s)
        return ci


# ---- declared shapes
def ann_fact(t, ann, ct: ClassTable):
    """Shallow typing fact for term t of sort V under annotation ann (or None if nothing is known)."""
    if ann is None:
        return None
    k = ann[0]
    if k == "str":
        return V.is_VStr(t)
    if k == "int":
        return V.is_VInt(t)
    if k == "bool":
        return V.is_VBool(t)
    if k == "none":
        return V.is_VNone(t)
    if k == "float":
        return z3.Or(V.is_VFloat(t), V.is_VInt(t))
    if k in ("list",):
        return V.is_VList(t)
    if k == "seq":
        return z3.Or(V.is_VList(t), V.is_VTuple(t))
    if k == "tuple":
        return V.is_VTuple(t)
    if k == "set":
        return z3.And(V.is_VSet(t), z3.Not(V.fz(t)))
    if k == "frozenset":
        return z3.And(V.is_VSet(t), V.fz(t))
    if k == "dict":
        return V.is_VDict(t)
    if k == "rec":
        return V.is_VRec(t)
    if k == "obj":
        ci = ann[1]
        ids = [c.cid for c in ci.instance_classes()]
        return z3.And(V.is_VObj(t), z3.Or([V.cls(t) == i for i in ids]))
    if k == "union":
        fs = [ann_fact(t, a, ct) for a in ann[1]]
        if any(f is None for f in fs):
            return None
        return z3.Or(fs)
    return None


def ann_elem(ann):
    if ann is None:
        return None
    if ann[0] in ("list", "set", "frozenset", "seq"):
        return ann[1]
    if ann[0] == "union":
        # e.g. list[X] | None -> element of the list arm
        for a in ann[1]:
            if a[0] in ("list", "seq", "set", "frozenset"):
                return a[1]
    return None


def ann_mutable(ann):
    """Could a value of this shape be a mutable container or a mutable object?"""
    if ann is None:
        return True
    k = ann[0]
    if k in ("str", "int", "bool", "none", "float", "frozenset"):
        return False
    if k == "tuple":
        return any(ann_mutable(a) for a in ann[1]) if ann[1] else False
    if k == "union":
        return any(ann_mutable(a) for a in ann[1])
    if k == "obj":
        return not (ann[1].frozen or ann[1].is_enum)
    return True
