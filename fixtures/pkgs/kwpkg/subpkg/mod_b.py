from enum import Enum

from .mod_a import ReexportedClass, generic_class


class Color(Enum):
    """Colors."""
    red_color = 1
    val = 2
    BLUE = 3


class uses_other(ReexportedClass, generic_class):
    def m(self, c: Color, o: ReexportedClass | None) -> list[Color]: ...
