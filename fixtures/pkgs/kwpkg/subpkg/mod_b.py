from enum import Enum

from .mod_a import ReexportedClass, generic_class


class Color(Enum):
    """Colors."""
    red_color = 1
    val = 2
    BLUE = 3


class uses_other(ReexportedClass, generic_class):
    def m(self, c: Color, o: ReexportedClass | None) -> list[Color]: ...


import kwpkg.subpkg.mod_a as base_mod  # noqa: E402


class dotted_base(base_mod.generic_class, base_mod.ReexportedClass):
    """Bases written as dotted expressions."""

    def own(self, a: int = -1, b: float = +2.5, c: str = 'quote', d=not True) -> "dotted_base": ...
