from .mod_a import *  # noqa: F403
