"""Module a."""
from typing import Callable, Generic, Literal, Optional, TypeVar

my_t = TypeVar("my_t")
T_co = TypeVar("T_co", covariant=True, bound=int)


class _BaseA:
    def inherited_a(self, x: int) -> int:
        """Doc of inherited_a."""
        return x

    def shared(self) -> str:
        return "a"

    def _hidden(self) -> None: ...


class _BaseB(_BaseA):
    def inherited_b(self) -> None: ...

    def shared(self) -> str:
        return "b"


class ReexportedClass(_BaseB):
    """A class re-exported by the package."""

    attr_typed: int = 1
    attr_untyped = None
    _private_attr: str = ""
    union_attr: Literal["a"] | int = "a"

    def __init__(self, first_param: int, /, second: str = "s", *args: int, key_only: bool, **kwargs: float) -> None:
        self.instance_attr: list[int] = []

    def shared(self) -> str:
        return "own"

    @staticmethod
    def static_method(val: Optional[int] = None) -> tuple[int, str]:
        return 1, "a"

    @classmethod
    def class_method(cls) -> "ReexportedClass": ...

    @property
    def prop(self) -> set[int]:
        return set()

    class Inner:
        def inner_method(self, fun: Callable[[int, str], bool]) -> None: ...


class generic_class(Generic[my_t, T_co]):
    def method(self, a: my_t, b: dict[str, list[int]]) -> my_t: ...


def public_function(import_: "generic_class[int, int]", pos_only=None, /, *, kw_only) -> None:
    """Docstring of the public function."""


def no_annotations(a, b=1, c=-2, d="str", e=True, f=None):
    if a:
        return 1
    return "s", 2.0
