def exported_func(val: int, in_: str = "x") -> bool:
    """Exported through the package.

    Parameters
    ----------
    val : int
        the value
    """
    return True


def _stays_private() -> None: ...
