"""Package docstring."""
from ._private.hidden import exported_func as public_alias
from .sub.mod_a import ReexportedClass
from .sub import mod_b
