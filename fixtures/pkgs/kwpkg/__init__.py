"""Package docstring."""
from kwpkg._private.hidden import exported_func as public_alias
from .subpkg.mod_a import ReexportedClass
from .subpkg import mod_b
