"""Beta: not generic, but a method with its own type variable of the same name as Alpha's."""
from typing import TypeVar

T = TypeVar("T")


class Beta:
    def first(self, items: list[T]) -> T:
        return items[0]


def beta_function(a: int) -> int:
    return a
