"""Nested classes that repeat attribute names of the enclosing class."""


class Outer:
    shared: int = 1
    only_outer: str = ""

    class Inner:
        shared: str = "a"
        twice: int = 0

        def __init__(self) -> None:
            self.twice = 1
            self.inner_instance: bool = True

        class Innermost:
            shared: float = 1.0
            only_outer: int = 0

    def __init__(self) -> None:
        self.only_outer = "x"
        self.outer_instance: int = 2
