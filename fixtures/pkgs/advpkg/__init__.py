"""Adversarial package: state leaks between modules, re-export ties, nested classes, result reconciliation."""
from ._factory import _make as make
from .alpha_mod import Alpha
from .beta_mod import Beta
