from advpkg.x.y._n import Deep
