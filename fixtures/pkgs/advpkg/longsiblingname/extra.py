def extra_function(a: int) -> int:
    return a
