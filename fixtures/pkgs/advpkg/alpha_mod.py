"""Alpha needs an import in its stub, Beta (re-exported next to it) does not."""
from decimal import Decimal
from typing import Generic, TypeVar

T = TypeVar("T")


class Alpha(Generic[T]):
    def amount(self, value: Decimal, item: T) -> Decimal:
        return value
