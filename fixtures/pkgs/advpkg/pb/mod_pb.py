def pb_function() -> int:
    return 1
