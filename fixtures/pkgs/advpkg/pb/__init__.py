from advpkg.x.y._t import TiedOne, TiedTwo
