from ._n import Deep
