class Deep:
    def depth(self) -> int:
        return 3
