class TiedOne:
    def one(self) -> int:
        return 1


class TiedTwo:
    def two(self) -> int:
        return 2
