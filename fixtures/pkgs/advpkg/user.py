from advpkg.x.y._n import Deep


class User(Deep):
    def use(self, d: Deep) -> Deep:
        return d
