from advpkg.x.y._n import Deep


class User(Deep):
    def use(self, d: Deep) -> Deep:
        return d


from advpkg.x.y._t import TiedOne, TiedTwo  # noqa: E402


def use_tied(one: TiedOne, two: TiedTwo) -> TiedOne:
    return one
