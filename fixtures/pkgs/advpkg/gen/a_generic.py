from typing import Generic, TypeVar

T = TypeVar("T")


class Box(Generic[T]):
    def get(self) -> T: ...
