from typing import TypeVar

T = TypeVar("T")


class Plain:
    def first(self, items: list[T]) -> T:
        return items[0]
