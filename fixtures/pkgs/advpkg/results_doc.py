"""Docstring results against hinted results."""


def pair(x: int) -> tuple[int, str]:
    """Return a pair.

    Parameters
    ----------
    x : float
        The input.

    Returns
    -------
    first : array-like of shape (n,)
        No parseable type here.
    second : float
        A type that differs from the hint.
    """
    return x, ""


def triple(x: int) -> tuple[int, str, bool]:
    """Return a triple.

    Returns
    -------
    one : int
        Same as the hint.
    two : unparseable thing here
        Nothing.
    three : float
        Differs.
    """
    return x, "", True


def conditional(flag: bool, other):
    return (1, "a") if flag else 2.5


def conditional_nested(flag: bool):
    if flag:
        return ("x", 2) if not flag else None
    return 7
