"""Unrelated declarations that share the private name of a re-exported one."""


def _make(other: float) -> float:
    return other


class Keeper:
    def _make_it(self) -> None: ...

    def make(self) -> None: ...

    def _make(self) -> None: ...


class Holder:
    _make: int = 0
    make_public: int = 1
