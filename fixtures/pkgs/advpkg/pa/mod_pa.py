def pa_function() -> int:
    return 1
