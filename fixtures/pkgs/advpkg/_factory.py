"""Private module whose private function is re-exported under a public alias."""


def _make(kind: str) -> int:
    """Create something."""
    return 1


def _not_exported(a: int) -> int:
    return a
