class Cls_inner_tests:
    def method_inner_tests(self, x: int = 1) -> str:
        return ""


def func_inner_tests() -> None: ...
