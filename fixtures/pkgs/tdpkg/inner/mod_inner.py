class Cls_inner:
    def method_inner(self, x: int = 1) -> str:
        return ""


def func_inner() -> None: ...
