"""A tests package whose __init__ declares something that a regular module imports."""


def make_fixture() -> int:
    return 1


class FixtureInInit:
    def fixture_method(self) -> None: ...
