class Cls_tests:
    def method_tests(self, x: int = 1) -> str:
        return ""


def func_tests() -> None: ...
