class Cls_mytests:
    def method_mytests(self, x: int = 1) -> str:
        return ""


def func_mytests() -> None: ...
