class Cls_testing:
    def method_testing(self, x: int = 1) -> str:
        return ""


def func_testing() -> None: ...
