def core_function(a: int) -> int:
    return a
