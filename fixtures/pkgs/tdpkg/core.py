from tdpkg.docs import docs_init_function
from tdpkg.tests import FixtureInInit, make_fixture


def core_function(a: int) -> int:
    return a + make_fixture()


def uses_docs() -> str:
    return docs_init_function()
