class Cls_docs_old:
    def method_docs_old(self, x: int = 1) -> str:
        return ""


def func_docs_old() -> None: ...
