class Cls_test:
    def method_test(self, x: int = 1) -> str:
        return ""


def func_test() -> None: ...
