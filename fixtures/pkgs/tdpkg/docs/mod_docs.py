class Cls_docs:
    def method_docs(self, x: int = 1) -> str:
        return ""


def func_docs() -> None: ...
