def docs_init_function() -> str:
    return ""
