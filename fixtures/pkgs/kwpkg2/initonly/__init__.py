"""A sub-package that consists of its __init__ file only."""


def only_in_init(a: int) -> int:
    return a
