"""Module in a package whose name is a Safe-DS keyword."""
from enum import Enum


def comment_closer() -> None:
    """This description contains */ which closes the stub comment early."""


def quoted_default(text: str = 'say "hi"') -> None: ...


class val(Enum):
    """An enum whose name is a keyword and whose name is not converted."""
    first_member = 1


class _PrivateColor(Enum):
    RED = 1


class Outer:
    class Nested:
        pass


class uses_nested_base(Outer.Nested):
    """A nested class as superclass: the stub imports it from a package that has no stub (recorded finding)."""


from collections.abc import Callable  # noqa: E402


class HasCallable:
    callable_attr: Callable[[int], str]
