"""Package that exhibits recorded defects (known findings); not part of the regular bounded cases."""
from ._impl.hidden import relative_reexport as public_name
