"""Package that exhibits recorded defects (known findings); not part of the regular bounded cases."""
