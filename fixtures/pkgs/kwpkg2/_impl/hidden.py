def relative_reexport() -> int:
    """Re-exported by the grandparent package through a relative import: stays private (recorded finding)."""
    return 1
