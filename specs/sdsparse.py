"""A small parser for Safe-DS stub files (oracle for the text-level contract clauses).

Grammar subset (what stub files may contain): optional file annotations, one package declaration, imports,
then declarations: classes (type parameters, constructor parameters, `sub` list, body), functions, attributes,
enums; documentation comments `/** ... */`, line comments `// ...`; types: named types with type arguments and
`?`, `union<...>`, `literal<...>`, callable types. Identifiers are [A-Za-z_][A-Za-z0-9_]* or back-quoted.
The 33 keywords are not identifiers unless back-quoted.
"""
from __future__ import annotations

import re
from dataclasses import dataclass, field

KEYWORDS = {"_", "and", "annotation", "as", "attr", "class", "const", "enum", "false", "from", "fun", "import", "in",
            "internal", "literal", "not", "null", "or", "out", "package", "pipeline", "private", "schema", "static",
            "segment", "sub", "this", "true", "union", "unknown", "val", "where", "yield"}


class StubSyntaxError(Exception):
    pass


@dataclass
class Decl:
    kind: str                      # class | fun | attr | enum | variant | param | result | typeparam
    name: str                      # stub identifier (back-quotes removed)
    python_name: str | None = None  # from @PythonName
    todos: list = field(default_factory=list)
    doc: str | None = None
    static: bool = False
    type: str | None = None
    default: str | None = None
    params: list = field(default_factory=list)
    results: list = field(default_factory=list)
    type_params: list = field(default_factory=list)
    supers: list = field(default_factory=list)
    members: list = field(default_factory=list)
    escaped: bool = False
    annotations: list = field(default_factory=list)

    @property
    def pyname(self):
        return self.python_name if self.python_name is not None else self.name


@dataclass
class Module:
    package: str
    python_module: str | None
    imports: list
    decls: list
    doc: str | None = None


TOKEN_RE = re.compile(r"""
    (?P<doc>/\*\*.*?\*/) |
    (?P<comment>//[^\n]*) |
    (?P<ws>\s+) |
    (?P<string>"(?:[^"\\\n]|\\.)*") |
    (?P<number>-?\d+(?:\.\d+)?(?:[eE][-+]?\d+)?) |
    (?P<bqid>`[A-Za-z_][A-Za-z0-9_]*`) |
    (?P<id>[A-Za-z_][A-Za-z0-9_]*) |
    (?P<arrow>->) |
    (?P<op>[@(){}<>,:=.?*\[\]-])
""", re.X | re.S)


def tokenize(text):
    pos = 0
    out = []
    while pos < len(text):
        m = TOKEN_RE.match(text, pos)
        if not m:
            raise StubSyntaxError(f"unexpected character {text[pos]!r} at offset {pos}: {text[max(0, pos - 30):pos + 30]!r}")
        kind = m.lastgroup
        val = m.group()
        if kind == "doc":
            inner = val[3:-2]
            if "*/" in inner:
                raise StubSyntaxError("nested comment terminator")
            out.append(("doc", val, pos))
        elif kind == "comment":
            out.append(("comment", val, pos))
        elif kind != "ws":
            out.append((kind, val, pos))
        pos = m.end()
    out.append(("eof", "", pos))
    return out


class Parser:
    def __init__(self, text):
        self.text = text
        self.toks = tokenize(text)
        self.i = 0

    # -- helpers
    def peek(self, k=0):
        return self.toks[min(self.i + k, len(self.toks) - 1)]

    def next(self):
        t = self.toks[self.i]
        self.i += 1
        return t

    def err(self, msg):
        t = self.peek()
        raise StubSyntaxError(f"{msg} at offset {t[2]} near {self.text[max(0, t[2] - 40):t[2] + 40]!r}")

    def accept(self, val):
        if self.peek()[1] == val and self.peek()[0] in ("op", "id", "arrow"):
            return self.next()
        return None

    def expect(self, val):
        t = self.accept(val)
        if t is None:
            self.err(f"expected {val!r}")
        return t

    def ident(self):
        k, v, _ = self.peek()
        if k == "bqid":
            self.next()
            return v[1:-1], True
        if k == "id":
            if v in KEYWORDS:
                self.err(f"keyword {v!r} used as identifier")
            self.next()
            return v, False
        self.err("identifier expected")

    def qname(self):
        parts = [self.ident()[0]]
        while self.accept("."):
            parts.append(self.ident()[0])
        return ".".join(parts)

    def skip_trivia(self):
        """Collect doc comments and TODO comments in front of a declaration."""
        todos, doc = [], None
        while self.peek()[0] in ("doc", "comment"):
            k, v, _ = self.next()
            if k == "doc":
                doc = v
            elif v.startswith("// TODO"):
                todos.append(v[len("// TODO"):].strip())
        return todos, doc

    def annotations(self):
        anns = []
        while self.peek()[1] == "@" and self.peek()[0] == "op":
            self.next()
            name = self.ident()[0]
            arg = None
            if self.accept("("):
                k, v, _ = self.next()
                if k != "string":
                    self.err("string argument expected in annotation")
                arg = bytes(v[1:-1], "utf-8").decode("unicode_escape") if "\\" in v else v[1:-1]
                self.expect(")")
            anns.append((name, arg))
            # trivia between annotations and the declaration keeps accumulating in the caller
        return anns

    # -- grammar
    def module(self):
        todos, doc = self.skip_trivia()
        anns = self.annotations()
        self.expect("package")
        pkg = self.qname()
        imports = []
        while self.peek()[1] == "from" and self.peek()[0] == "id":
            self.next()
            src = self.qname()
            self.expect("import")
            name = self.ident()[0]
            imports.append((src, name))
        decls = []
        while self.peek()[0] != "eof":
            decls.append(self.declaration())
        pm = None
        for n, a in anns:
            if n == "PythonModule":
                pm = a
            else:
                raise StubSyntaxError(f"unexpected file annotation @{n}")
        return Module(pkg, pm, imports, decls, doc)

    def declaration(self):
        todos, doc = self.skip_trivia()
        anns = self.annotations()
        t2, d2 = self.skip_trivia()
        todos += t2
        doc = d2 or doc
        anns += self.annotations()
        t3, d3 = self.skip_trivia()
        todos += t3
        doc = d3 or doc
        static = bool(self.accept("static"))
        k, v, _ = self.peek()
        pyname = None
        for n, a in anns:
            if n == "PythonName":
                pyname = a
        if v == "class" and k == "id":
            self.next()
            name, esc = self.ident()
            d = Decl("class", name, pyname, todos, doc, escaped=esc, annotations=anns)
            if self.peek()[1] == "<":
                d.type_params = self.type_params()
            if self.accept("("):
                d.params = self.params()
                self.expect(")")
            if self.accept("sub"):
                d.supers.append(self.type_())
                while self.accept(","):
                    d.supers.append(self.type_())
            if self.accept("{"):
                while self.peek()[1] != "}":
                    if self.peek()[0] == "eof":
                        self.err("unclosed class body")
                    d.members.append(self.declaration())
                self.expect("}")
            return d
        if v == "fun" and k == "id":
            self.next()
            name, esc = self.ident()
            d = Decl("fun", name, pyname, todos, doc, static=static, escaped=esc, annotations=anns)
            if self.peek()[1] == "<":
                d.type_params = self.type_params()
            self.expect("(")
            d.params = self.params()
            self.expect(")")
            if self.accept("->"):
                d.results = self.results()
            return d
        if v == "attr" and k == "id":
            self.next()
            name, esc = self.ident()
            d = Decl("attr", name, pyname, todos, doc, static=static, escaped=esc, annotations=anns)
            if self.accept(":"):
                d.type = self.type_()
            return d
        if v == "enum" and k == "id":
            self.next()
            name, esc = self.ident()
            d = Decl("enum", name, pyname, todos, doc, escaped=esc, annotations=anns)
            if self.accept("{"):
                while self.peek()[1] != "}":
                    if self.peek()[0] == "eof":
                        self.err("unclosed enum body")
                    vt, vd = self.skip_trivia()
                    vanns = self.annotations()
                    vname, vesc = self.ident()
                    vpy = None
                    for n, a in vanns:
                        if n == "PythonName":
                            vpy = a
                    d.members.append(Decl("variant", vname, vpy, vt, vd, escaped=vesc, annotations=vanns))
                self.expect("}")
            return d
        self.err("declaration expected")

    def type_params(self):
        self.expect("<")
        out = []
        while True:
            variance = None
            if self.peek()[1] in ("out", "in") and self.peek()[0] == "id":
                variance = self.next()[1]
            name, esc = self.ident()
            tp = Decl("typeparam", name, escaped=esc)
            tp.annotations = [variance]
            if self.accept("sub"):
                tp.type = self.type_()
            out.append(tp)
            if not self.accept(","):
                break
        self.expect(">")
        return out

    def params(self):
        out = []
        if self.peek()[1] == ")":
            return out
        while True:
            anns = self.annotations()
            name, esc = self.ident()
            p = Decl("param", name, escaped=esc, annotations=anns)
            for n, a in anns:
                if n == "PythonName":
                    p.python_name = a
            if self.accept(":"):
                p.type = self.type_()
            if self.accept("="):
                p.default = self.expr()
            out.append(p)
            if not self.accept(","):
                break
        return out

    def results(self):
        out = []
        if self.accept("("):
            if self.peek()[1] != ")":
                while True:
                    out.append(self.result())
                    if not self.accept(","):
                        break
            self.expect(")")
            return out
        return [self.result()]

    def result(self):
        name, esc = self.ident()
        self.expect(":")
        r = Decl("result", name, escaped=esc)
        r.type = self.type_()
        return r

    def expr(self):
        k, v, _ = self.peek()
        if k in ("string", "number"):
            self.next()
            return v
        if k == "id" and v in ("true", "false", "null", "unknown"):
            self.next()
            return v
        if v == "[":
            self.next()
            self.expect("]")
            return "[]"
        if v == "{":
            self.next()
            self.expect("}")
            return "{}"
        self.err("literal expected")

    def type_(self):
        start = self.peek()[2]
        k, v, _ = self.peek()
        if v == "(" and k == "op":
            self.next()
            self.params()
            self.expect(")")
            self.expect("->")
            if self.peek()[1] == "(":
                self.next()
                if self.peek()[1] != ")":
                    while True:
                        self.result()
                        if not self.accept(","):
                            break
                self.expect(")")
            else:
                self.result()
        elif v == "union" and k == "id":
            self.next()
            self.expect("<")
            self.type_()
            while self.accept(","):
                self.type_()
            self.expect(">")
        elif v == "literal" and k == "id":
            self.next()
            self.expect("<")
            self.expr()
            while self.accept(","):
                self.expr()
            self.expect(">")
        elif v == "unknown" and k == "id":
            self.next()
        else:
            self.qname()
            if self.accept("<"):
                if self.peek()[1] != ">":      # `Tuple<>` occurs in upstream snapshots: accepted
                    self.type_()
                    while self.accept(","):
                        self.type_()
                self.expect(">")
        self.accept("?")
        end = self.peek()[2]
        return self.text[start:end].strip()


def parse(text) -> Module:
    p = Parser(text)
    m = p.module()
    return m


def walk(decls):
    for d in decls:
        yield d
        yield from walk(d.members)
