"""Sidecar contracts. MODULES lists the spec modules the checker loads (order = report order)."""
MODULES = [
    "specs.helper",
    "specs.mypy_helpers",
    "specs.types",
    "specs.api",
    "specs.generator",
    "specs.pipeline",
    "specs.analysis",
    "specs.cli",
    "specs.findings",
    "specs.small",
]
