"""Contracts and laws for safeds_stubgen/api_analyzer/_types.py (C19; freshness of to_dict for C16).

Structure of the argument (structural induction over type terms):
  * TD(t) is the dictionary of t (spec function, defined by cases on the class of t, recursive on children).
  * every `K.to_dict` is verified against `result == TD(self)`; dynamic dispatch on a child uses the abstract
    contract of `AbstractType.to_dict` (the induction hypothesis on the smaller term).
  * `AbstractType.from_dict` on a child dictionary TD(c) is abstracted as returning c itself (UNTD(TD(c)) = c):
    the induction hypothesis "parsing the dictionary of a smaller term gives a value indistinguishable from it
    by ==, hash and to_dict". The parent classes only use ==, hash, Counter, frozenset and to_dict on children.
  * one lemma per constructor proves the laws for a term of that class from the hypothesis on its children.
"""
from pyvc.api import clause, contract, deep_fresh, implies, ite, lemma, opaque
from safeds_stubgen.api_analyzer._types import (AbstractType, BoundaryType, CallableType, DictType, EnumType,
                                                FinalType, ListType, LiteralType, NamedSequenceType, NamedType,
                                                SetType, TupleType, TypeVarType, UnionType, UnknownType)


def TD_POST(t, r):
    return isinstance(r["kind"], str) and r["kind"] in KINDS


@opaque(ann="TypeDict", post="TD_POST")
def TD(t):
    if isinstance(t, UnknownType):
        return {"kind": "UnknownType"}
    if isinstance(t, NamedType):
        return {"kind": "NamedType", "name": t.name, "qname": t.qname}
    if isinstance(t, NamedSequenceType):
        return {"kind": "NamedSequenceType", "name": t.name, "qname": t.qname, "types": [TD(c) for c in t.types]}
    if isinstance(t, EnumType):
        return {"kind": "EnumType", "values": set(t.values)}
    if isinstance(t, BoundaryType):
        return {"kind": "BoundaryType", "base_type": t.base_type, "min": t.min, "max": t.max,
                "min_inclusive": t.min_inclusive, "max_inclusive": t.max_inclusive}
    if isinstance(t, UnionType):
        return {"kind": "UnionType", "types": [TD(c) for c in t.types]}
    if isinstance(t, ListType):
        return {"kind": "ListType", "types": [TD(c) for c in t.types]}
    if isinstance(t, DictType):
        return {"kind": "DictType", "key_type": TD(t.key_type), "value_type": TD(t.value_type)}
    if isinstance(t, CallableType):
        return {"kind": "CallableType", "parameter_types": [TD(c) for c in t.parameter_types],
                "return_type": TD(t.return_type)}
    if isinstance(t, SetType):
        return {"kind": "SetType", "types": [TD(c) for c in t.types]}
    if isinstance(t, LiteralType):
        return {"kind": "LiteralType", "literals": list(t.literals)}
    if isinstance(t, FinalType):
        return {"kind": "FinalType", "type": TD(t.type_)}
    if isinstance(t, TupleType):
        return {"kind": "TupleType", "types": [TD(c) for c in t.types]}
    if isinstance(t, TypeVarType):
        return {"kind": "TypeVarType", "name": t.name,
                "upper_bound": TD(t.upper_bound) if t.upper_bound is not None else None}
    return None


def TD_unfolded(t):
    return TD(t)


@opaque(ann="AbstractType", inverse_of="TD")
def UNTD(d):
    """The term a dictionary denotes (left inverse of TD on its image)."""
    return AbstractType.from_dict(d)


# ---------------------------------------------------------------------------------------------- to_dict
@contract("safeds_stubgen.api_analyzer._types:AbstractType.to_dict", props=["C19", "C16", "C05"], verify=False)
class abstract_to_dict:
    """Abstract contract used for dynamic dispatch (induction hypothesis); every override is verified against
    the same clauses below."""
    raises = ()

    def ensures_td(self, result):
        return result == TD(self)


def _to_dict_contract(cls_name):
    pass


@contract("safeds_stubgen.api_analyzer._types:UnknownType.to_dict", props=["C19", "C16"])
class unknown_to_dict:
    raises = ()
    unfold = ["TD"]

    def ensures_td(self, result):
        return result == TD(self)

    @clause(props=["C16"])
    def ensures_fresh(self, result):
        return deep_fresh(result)


@contract("safeds_stubgen.api_analyzer._types:NamedType.to_dict", props=["C19", "C16"])
class named_to_dict:
    raises = ()
    unfold = ["TD"]

    def ensures_td(self, result):
        return result == TD(self)

    @clause(props=["C16"])
    def ensures_fresh(self, result):
        return deep_fresh(result)


@contract("safeds_stubgen.api_analyzer._types:NamedSequenceType.to_dict", props=["C19", "C16"])
class namedseq_to_dict:
    raises = ()
    unfold = ["TD"]

    def ensures_td(self, result):
        return result == TD(self)

    @clause(props=["C16"])
    def ensures_fresh(self, result):
        return deep_fresh(result)


@contract("safeds_stubgen.api_analyzer._types:EnumType.to_dict", props=["C19", "C16"])
class enum_to_dict:
    raises = ()

    def ensures_kind(self, result):
        return result["kind"] == "EnumType" and result["values"] == self.values

    @clause(props=["C16"])
    def ensures_fresh(self, result):
        return deep_fresh(result)


@contract("safeds_stubgen.api_analyzer._types:BoundaryType.to_dict", props=["C19", "C16"])
class boundary_to_dict:
    raises = ()
    unfold = ["TD"]

    def ensures_td(self, result):
        return result == TD(self)

    @clause(props=["C16"])
    def ensures_fresh(self, result):
        return deep_fresh(result)


@contract("safeds_stubgen.api_analyzer._types:UnionType.to_dict", props=["C19", "C16"])
class union_to_dict:
    raises = ()
    unfold = ["TD"]

    def ensures_td(self, result):
        return result == TD(self)

    @clause(props=["C16"])
    def ensures_fresh(self, result):
        return deep_fresh(result)


@contract("safeds_stubgen.api_analyzer._types:ListType.to_dict", props=["C19", "C16"])
class list_to_dict:
    raises = ()
    unfold = ["TD"]

    def ensures_td(self, result):
        return result == TD(self)

    @clause(props=["C16"])
    def ensures_fresh(self, result):
        return deep_fresh(result)


@contract("safeds_stubgen.api_analyzer._types:DictType.to_dict", props=["C19", "C16"])
class dict_to_dict:
    raises = ()
    unfold = ["TD"]

    def ensures_td(self, result):
        return result == TD(self)

    @clause(props=["C16"])
    def ensures_fresh(self, result):
        return deep_fresh(result)


@contract("safeds_stubgen.api_analyzer._types:CallableType.to_dict", props=["C19", "C16"])
class callable_to_dict:
    raises = ()
    unfold = ["TD"]

    def ensures_td(self, result):
        return result == TD(self)

    @clause(props=["C16"])
    def ensures_fresh(self, result):
        return deep_fresh(result)


@contract("safeds_stubgen.api_analyzer._types:SetType.to_dict", props=["C19", "C16"])
class set_to_dict:
    raises = ()
    unfold = ["TD"]

    def ensures_td(self, result):
        return result == TD(self)

    @clause(props=["C16"])
    def ensures_fresh(self, result):
        return deep_fresh(result)


@contract("safeds_stubgen.api_analyzer._types:LiteralType.to_dict", props=["C19", "C16"])
class literal_to_dict:
    raises = ()
    unfold = ["TD"]

    def ensures_td(self, result):
        return result == TD(self)

    @clause(props=["C16"])
    def ensures_fresh(self, result):
        return deep_fresh(result)


@contract("safeds_stubgen.api_analyzer._types:FinalType.to_dict", props=["C19", "C16"])
class final_to_dict:
    raises = ()
    unfold = ["TD"]

    def ensures_td(self, result):
        return result == TD(self)

    @clause(props=["C16"])
    def ensures_fresh(self, result):
        return deep_fresh(result)


@contract("safeds_stubgen.api_analyzer._types:TupleType.to_dict", props=["C19", "C16"])
class tuple_to_dict:
    raises = ()
    unfold = ["TD"]

    def ensures_td(self, result):
        return result == TD(self)

    @clause(props=["C16"])
    def ensures_fresh(self, result):
        return deep_fresh(result)


@contract("safeds_stubgen.api_analyzer._types:TypeVarType.to_dict", props=["C19", "C16"])
class typevar_to_dict:
    raises = ()
    unfold = ["TD"]

    def ensures_td(self, result):
        return result == TD(self)

    @clause(props=["C16"])
    def ensures_fresh(self, result):
        return deep_fresh(result)


# ---------------------------------------------------------------------------------------------- from_dict
@lemma(params={"t": "AbstractType"}, props=["C19"])
def td_post(t):
    """The declared postcondition of TD follows from its definition, for every constructor."""
    assert TD_POST(t, TD_unfolded(t))


KINDS = {"UnknownType", "NamedType", "NamedSequenceType", "EnumType", "BoundaryType", "ListType", "DictType",
         "SetType", "LiteralType", "FinalType", "TupleType", "UnionType", "CallableType", "TypeVarType"}


@contract("safeds_stubgen.api_analyzer._types:AbstractType.from_dict", props=["C19"])
class dispatch_from_dict:
    """Kind-dispatching parser: routes every known kind to the parser of that class, raises only for unknown
    kinds. Its result on the dictionary of a (smaller) term is that term (induction hypothesis, via the assumed
    contracts of the per-class parsers below, which the per-class lemmas establish)."""
    params = {"d": "rec"}

    def requires(cls, d):
        return isinstance(d["kind"], str)

    def raises_ValueError(cls, d):
        return d["kind"] not in KINDS

    def ensures_untd(cls, d, result):
        return result == UNTD(d)


def _ih(name):
    pass


@contract("safeds_stubgen.api_analyzer._types:UnknownType.from_dict", props=["C19"], verify=False)
class ih_unknown:
    raises = ()

    def ensures_untd(cls, _, result):
        return result == UNTD(_)


@contract("safeds_stubgen.api_analyzer._types:NamedType.from_dict", props=["C19"], verify=False)
class ih_from_dict:
    also = [
            "safeds_stubgen.api_analyzer._types:NamedSequenceType.from_dict",
            "safeds_stubgen.api_analyzer._types:EnumType.from_dict",
            "safeds_stubgen.api_analyzer._types:BoundaryType.from_dict",
            "safeds_stubgen.api_analyzer._types:ListType.from_dict",
            "safeds_stubgen.api_analyzer._types:DictType.from_dict",
            "safeds_stubgen.api_analyzer._types:SetType.from_dict",
            "safeds_stubgen.api_analyzer._types:LiteralType.from_dict",
            "safeds_stubgen.api_analyzer._types:FinalType.from_dict",
            "safeds_stubgen.api_analyzer._types:TupleType.from_dict",
            "safeds_stubgen.api_analyzer._types:UnionType.from_dict",
            "safeds_stubgen.api_analyzer._types:CallableType.from_dict",
            "safeds_stubgen.api_analyzer._types:TypeVarType.from_dict"]
    raises = ()

    def ensures_untd(cls, d, result):
        return result == UNTD(d)


# ---------------------------------------------------------------------------------------------- laws, per constructor
_T = "safeds_stubgen.api_analyzer._types:"


@lemma(params={"x": "UnknownType", "z": "UnknownType"}, props=["C19"],
       inline=[_T + "UnknownType.to_dict", _T + "UnknownType.from_dict"])
def laws_UnknownType(x, z):
    d = x.to_dict()
    y = UnknownType.from_dict(d)
    assert y == x
    assert y.to_dict() == d
    assert x == x
    assert (x == z) == (z == x)
    if x == z:
        assert hash(x) == hash(z)


@lemma(params={"x": "NamedType", "z": "NamedType"}, props=["C19"],
       inline=[_T + "NamedType.to_dict", _T + "NamedType.from_dict"])
def laws_NamedType(x, z):
    d = x.to_dict()
    y = NamedType.from_dict(d)
    assert y == x
    assert y.to_dict() == d
    assert x == x
    assert (x == z) == (z == x)
    if x == z:
        assert hash(x) == hash(z)


@lemma(params={"x": "NamedSequenceType", "z": "NamedSequenceType"}, props=["C19"],
       inline=[_T + "NamedSequenceType.to_dict", _T + "NamedSequenceType.from_dict"])
def laws_NamedSequenceType(x, z):
    d = x.to_dict()
    y = NamedSequenceType.from_dict(d)
    assert y == x
    assert y.to_dict() == d
    assert x == x
    assert (x == z) == (z == x)
    if x == z:
        assert hash(x) == hash(z)


@lemma(params={"x": "EnumType", "z": "EnumType"}, props=["C19"],
       inline=[_T + "EnumType.to_dict", _T + "EnumType.from_dict"])
def laws_EnumType(x, z):
    d = x.to_dict()
    y = EnumType.from_dict(d)
    assert y == x
    assert y.to_dict() == d
    assert x == x
    assert (x == z) == (z == x)
    assert hash(y) == hash(x)
    if x == z:
        assert hash(x) == hash(z)


@lemma(params={"x": "BoundaryType", "z": "BoundaryType"}, props=["C19"],
       inline=[_T + "BoundaryType.to_dict", _T + "BoundaryType.from_dict"])
def laws_BoundaryType(x, z):
    d = x.to_dict()
    y = BoundaryType.from_dict(d)
    assert y == x
    assert y.to_dict() == d
    assert x == x
    assert (x == z) == (z == x)
    if x == z:
        assert hash(x) == hash(z)


@lemma(params={"x": "ListType", "z": "ListType"}, props=["C19"],
       inline=[_T + "ListType.to_dict", _T + "ListType.from_dict"])
def laws_ListType(x, z):
    d = x.to_dict()
    y = ListType.from_dict(d)
    assert y == x
    assert y.to_dict() == d
    assert x == x
    assert (x == z) == (z == x)
    if x == z:
        assert hash(x) == hash(z)


@lemma(params={"x": "SetType", "z": "SetType"}, props=["C19"],
       inline=[_T + "SetType.to_dict", _T + "SetType.from_dict"])
def laws_SetType(x, z):
    d = x.to_dict()
    y = SetType.from_dict(d)
    assert y == x
    assert y.to_dict() == d
    assert x == x
    assert (x == z) == (z == x)
    if x == z:
        assert hash(x) == hash(z)


@lemma(params={"x": "TupleType", "z": "TupleType"}, props=["C19"],
       inline=[_T + "TupleType.to_dict", _T + "TupleType.from_dict"])
def laws_TupleType(x, z):
    d = x.to_dict()
    y = TupleType.from_dict(d)
    assert y == x
    assert y.to_dict() == d
    assert x == x
    assert (x == z) == (z == x)
    if x == z:
        assert hash(x) == hash(z)


@lemma(params={"x": "UnionType", "z": "UnionType"}, props=["C19"],
       inline=[_T + "UnionType.to_dict", _T + "UnionType.from_dict"])
def laws_UnionType(x, z):
    d = x.to_dict()
    y = UnionType.from_dict(d)
    assert y == x
    assert y.to_dict() == d
    assert x == x
    assert (x == z) == (z == x)
    if x == z:
        assert hash(x) == hash(z)


@lemma(params={"x": "DictType", "z": "DictType"}, props=["C19"],
       inline=[_T + "DictType.to_dict", _T + "DictType.from_dict"])
def laws_DictType(x, z):
    d = x.to_dict()
    y = DictType.from_dict(d)
    assert y == x
    assert y.to_dict() == d
    assert x == x
    assert (x == z) == (z == x)
    if x == z:
        assert hash(x) == hash(z)


@lemma(params={"x": "CallableType", "z": "CallableType"}, props=["C19"],
       inline=[_T + "CallableType.to_dict", _T + "CallableType.from_dict"])
def laws_CallableType(x, z):
    d = x.to_dict()
    y = CallableType.from_dict(d)
    assert y == x
    assert y.to_dict() == d
    assert x == x
    assert (x == z) == (z == x)
    if x == z:
        assert hash(x) == hash(z)


@lemma(params={"x": "LiteralType", "z": "LiteralType"}, props=["C19"],
       inline=[_T + "LiteralType.to_dict", _T + "LiteralType.from_dict"])
def laws_LiteralType(x, z):
    d = x.to_dict()
    y = LiteralType.from_dict(d)
    assert y == x
    assert y.to_dict() == d
    assert x == x
    assert (x == z) == (z == x)
    if x == z:
        assert hash(x) == hash(z)


@lemma(params={"x": "FinalType", "z": "FinalType"}, props=["C19"],
       inline=[_T + "FinalType.to_dict", _T + "FinalType.from_dict"])
def laws_FinalType(x, z):
    d = x.to_dict()
    y = FinalType.from_dict(d)
    assert y == x
    assert y.to_dict() == d
    assert x == x
    assert (x == z) == (z == x)
    if x == z:
        assert hash(x) == hash(z)


@lemma(params={"x": "TypeVarType", "z": "TypeVarType"}, props=["C19"],
       inline=[_T + "TypeVarType.to_dict", _T + "TypeVarType.from_dict"])
def laws_TypeVarType(x, z):
    d = x.to_dict()
    y = TypeVarType.from_dict(d)
    assert y == x
    assert y.to_dict() == d
    assert x == x
    assert (x == z) == (z == x)
    if x == z:
        assert hash(x) == hash(z)
