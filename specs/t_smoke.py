"""Smoke-test contracts used while developing the engine."""
from pyvc.api import contract, implies, clause, ite

KW33 = {"_", "and", "annotation", "as", "attr", "class", "const", "enum", "false", "from", "fun", "import", "in",
        "internal", "literal", "not", "null", "or", "out", "package", "pipeline", "private", "schema", "static",
        "segment", "sub", "this", "true", "union", "unknown", "val", "where", "yield"}


@contract("safeds_stubgen.stubs_generator._helper:_replace_if_safeds_keyword", prop="C02")
class replace_kw:
    params = {"keyword": "str"}
    raises = ()

    def ensures_kw(keyword, result):
        return implies(keyword in KW33, result == "`" + keyword + "`")

    def ensures_nonkw(keyword, result):
        return implies(keyword not in KW33, result == keyword)


@contract("safeds_stubgen._helpers:is_internal", prop="C04")
class is_internal_c:
    params = {"name": "str"}
    raises = ()

    def ensures_prefix(name, result):
        return result == (len(name) > 0 and name[0] == "_")


@contract("safeds_stubgen.stubs_generator._helper:_create_name_annotation", prop="C09")
class name_annotation:
    params = {"name": "str"}
    raises = ()

    def ensures_text(name, result):
        return result == '@PythonName("' + name + '")'


@contract("safeds_stubgen.api_analyzer._mypy_helpers:get_argument_kind", prop="C06")
class arg_kind:
    params = {"arg": "mp_nodes.Argument"}
    raises = ()

    def ensures_table(arg, result):
        from mypy.nodes import ArgKind
        from safeds_stubgen.api_analyzer._api import ParameterAssignment as PA
        recv = arg.variable.is_self or arg.variable.is_cls
        return result == ite(recv, PA.IMPLICIT,
                         ite(arg.kind == ArgKind.ARG_POS or arg.kind == ArgKind.ARG_OPT,
                             ite(arg.pos_only, PA.POSITION_ONLY, PA.POSITION_OR_NAME),
                         ite(arg.kind == ArgKind.ARG_STAR, PA.POSITIONAL_VARARG,
                         ite(arg.kind == ArgKind.ARG_STAR2, PA.NAMED_VARARG, PA.NAME_ONLY))))


@contract("safeds_stubgen.stubs_generator._stub_string_generator:StubsStringGenerator._create_docstring_description_part", prop="C13")
class desc_part:
    params = {"description": "str", "indentations": "str"}
    raises = ()

    def ensures_nonempty(description, indentations, result):
        return len(result) >= 1 and result.endswith("\n")

    def ensures_line_for_line(description, indentations, result):
        return result == DESC(description, indentations)


def DESC(description, indent):
    lines = description.rstrip("\n").lstrip("\n").split("\n")
    return lines[0] + "".join((("\n" + indent + " * " + ln) if ln else ("\n" + indent + " *")) for ln in lines[1:]) + "\n"
