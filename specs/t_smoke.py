"""Smoke-test contracts used while developing the engine."""
from pyvc.api import contract, implies, clause

KW33 = {"_", "and", "annotation", "as", "attr", "class", "const", "enum", "false", "from", "fun", "import", "in",
        "internal", "literal", "not", "null", "or", "out", "package", "pipeline", "private", "schema", "static",
        "segment", "sub", "this", "true", "union", "unknown", "val", "where", "yield"}


@contract("safeds_stubgen.stubs_generator._helper:_replace_if_safeds_keyword", prop="C02")
class replace_kw:
    params = {"keyword": "str"}
    raises = ()

    def ensures_kw(keyword, result):
        return implies(keyword in KW33, result == "`" + keyword + "`")

    def ensures_nonkw(keyword, result):
        return implies(keyword not in KW33, result == keyword)


@contract("safeds_stubgen._helpers:is_internal", prop="C04")
class is_internal_c:
    params = {"name": "str"}
    raises = ()

    def ensures_prefix(name, result):
        return result == (len(name) > 0 and name[0] == "_")


@contract("safeds_stubgen.stubs_generator._helper:_create_name_annotation", prop="C09")
class name_annotation:
    params = {"name": "str"}
    raises = ()

    def ensures_text(name, result):
        return result == '@PythonName("' + name + '")'
