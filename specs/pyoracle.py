"""Source-level oracle: what a package declares, read with Python's own `ast` (independent of mypy, griffe and
the tool). Used by the bounded clauses on get_api / _run_stub_generator."""
from __future__ import annotations

import ast
import os
from dataclasses import dataclass, field


@dataclass
class PParam:
    name: str
    kind: str                 # IMPLICIT | POSITION_ONLY | POSITION_OR_NAME | POSITIONAL_VARARG | NAME_ONLY | NAMED_VARARG
    has_default: bool
    default: object = None    # ('lit', value) | ('other',) | None
    annotation: ast.expr | None = None


@dataclass
class PFunc:
    id: str
    name: str
    params: list
    returns: ast.expr | None
    doc: str | None
    is_static: bool = False
    is_class_method: bool = False
    is_property: bool = False
    node: ast.FunctionDef | None = None


@dataclass
class PClass:
    id: str
    name: str
    bases: list
    doc: str | None
    methods: list = field(default_factory=list)
    classes: list = field(default_factory=list)
    class_attrs: list = field(default_factory=list)      # (name, annotation | None)
    init_attrs: list = field(default_factory=list)
    is_enum: bool = False
    enum_members: list = field(default_factory=list)
    node: ast.ClassDef | None = None


@dataclass
class PModule:
    id: str
    path: str
    doc: str | None
    functions: list = field(default_factory=list)
    classes: list = field(default_factory=list)


ENUM_ALIASES = {}     # local name -> imported name, for `from enum import Enum as X` (filled per module)


def literal_default(node):
    """('lit', python value) for int/float/str/bool/None literals incl. signed numbers, else ('other',)"""
    if isinstance(node, ast.Constant) and (node.value is None or isinstance(node.value, (bool, int, float, str))):
        return ("lit", node.value)
    if isinstance(node, ast.UnaryOp) and isinstance(node.op, (ast.USub, ast.UAdd)) and isinstance(node.operand, ast.Constant) \
            and isinstance(node.operand.value, (int, float)) and not isinstance(node.operand.value, bool):
        return ("lit", -node.operand.value if isinstance(node.op, ast.USub) else +node.operand.value)
    if isinstance(node, ast.UnaryOp):
        return ("unparsable",)      # a default the tool flags as unknown value
    return ("other",)


def func_of(node: ast.FunctionDef, owner_id, in_class):
    decos = [ast.unparse(d) for d in node.decorator_list]
    is_static = "staticmethod" in decos
    is_cls = "classmethod" in decos
    a = node.args
    params = []
    pos = list(a.posonlyargs) + list(a.args)
    defaults = [None] * (len(pos) - len(a.defaults)) + list(a.defaults)
    for i, (arg, d) in enumerate(zip(pos, defaults)):
        if i == 0 and in_class and not is_static:
            kind = "IMPLICIT"
        elif i < len(a.posonlyargs):
            kind = "POSITION_ONLY"
        else:
            kind = "POSITION_OR_NAME"
        params.append(PParam(arg.arg, kind, d is not None, literal_default(d) if d is not None else None, arg.annotation))
    if a.vararg:
        params.append(PParam(a.vararg.arg, "POSITIONAL_VARARG", False, None, a.vararg.annotation))
    for arg, d in zip(a.kwonlyargs, a.kw_defaults):
        params.append(PParam(arg.arg, "NAME_ONLY", d is not None, literal_default(d) if d is not None else None, arg.annotation))
    if a.kwarg:
        params.append(PParam(a.kwarg.arg, "NAMED_VARARG", False, None, a.kwarg.annotation))
    return PFunc(f"{owner_id}/{node.name}", node.name, params, node.returns, ast.get_docstring(node, clean=True),
                 is_static, is_cls, "property" in decos, node)


def class_of(node: ast.ClassDef, owner_id):
    cid = f"{owner_id}/{node.name}"
    bases = [ast.unparse(b) for b in node.bases]
    c = PClass(cid, node.name, bases, ast.get_docstring(node, clean=True), node=node)
    c.is_enum = any(ENUM_ALIASES.get(b, b).split(".")[-1] in ("Enum", "IntEnum") for b in bases)
    for st in node.body:
        if isinstance(st, ast.FunctionDef):
            if any(ast.unparse(d).endswith(".setter") or ast.unparse(d).endswith(".deleter") for d in st.decorator_list):
                continue
            c.methods = [m for m in c.methods if m.name != st.name]       # overloads: the implementation comes last
            c.methods.append(func_of(st, cid, True))
            if st.name == "__init__":
                for sub in ast.walk(st):
                    tgts = []
                    if isinstance(sub, ast.Assign):
                        tgts = [(t, None) for t in sub.targets]
                    elif isinstance(sub, ast.AnnAssign):
                        tgts = [(sub.target, sub.annotation)]
                    for t, ann in tgts:
                        for tt in (t.elts if isinstance(t, ast.Tuple) else [t]):
                            if isinstance(tt, ast.Attribute) and isinstance(tt.value, ast.Name) and tt.value.id == "self":
                                if tt.attr not in [n for n, _ in c.init_attrs]:
                                    c.init_attrs.append((tt.attr, ann))
        elif isinstance(st, ast.ClassDef):
            c.classes.append(class_of(st, cid))
        elif isinstance(st, (ast.Assign, ast.AnnAssign)):
            tgts = st.targets if isinstance(st, ast.Assign) else [st.target]
            ann = st.annotation if isinstance(st, ast.AnnAssign) else None
            for t in tgts:
                for tt in (t.elts if isinstance(t, ast.Tuple) else [t]):
                    if isinstance(tt, ast.Name):
                        if c.is_enum:
                            c.enum_members.append(tt.id)
                        elif tt.id not in [n for n, _ in c.class_attrs]:
                            c.class_attrs.append((tt.id, ann))
    return c


def package_modules(root, include_tests=True):
    """All modules of the package directory `root` (ids like the tool's: dotted path below the parent of root,
    with '/' separators)."""
    root = os.path.abspath(root)
    # module ids are dotted paths below the topmost enclosing package (as mypy names the modules)
    top = root
    while os.path.exists(os.path.join(os.path.dirname(top), "__init__.py")):
        top = os.path.dirname(top)
    base = os.path.dirname(top)
    out = []
    for dp, dn, fn in sorted(os.walk(root)):
        dn.sort()
        for f in sorted(fn):
            if not f.endswith(".py"):
                continue
            p = os.path.join(dp, f)
            rel = os.path.relpath(p, base)[:-3]
            parts = rel.split(os.sep)
            if not include_tests and any(x in ("test", "tests", "docs") for x in os.path.abspath(p).split(os.sep)):
                continue
            if parts[-1] == "__init__":
                mid = "/".join(parts[:-1])
            else:
                mid = "/".join(parts)
            with open(p, encoding="utf-8") as fh:
                tree = ast.parse(fh.read())
            ENUM_ALIASES.clear()
            for st in tree.body:
                if isinstance(st, ast.ImportFrom) and st.module == "enum":
                    for a in st.names:
                        ENUM_ALIASES[a.asname or a.name] = a.name
            m = PModule(mid, p, ast.get_docstring(tree, clean=False))
            for st in tree.body:
                if isinstance(st, ast.FunctionDef):
                    m.functions = [f for f in m.functions if f.name != st.name]
                    m.functions.append(func_of(st, mid, False))
                elif isinstance(st, ast.ClassDef):
                    m.classes.append(class_of(st, mid))
            out.append(m)
    return out


def all_classes(mods):
    def walk(cs):
        for c in cs:
            yield c
            yield from walk(c.classes)
    for m in mods:
        yield from walk(m.classes)


def all_functions(mods):
    for m in mods:
        yield from m.functions
    for c in all_classes(mods):
        yield from c.methods
