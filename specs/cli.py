"""Contracts on the command-line pipeline (api_analyzer/cli/_cli.py:_run_stub_generator): whole-run clauses with
independent oracles (stub parser, Python `ast`, a reference mapping of annotations to Safe-DS types). Bounded:
evaluated natively on generated and fixture packages, into temporary directories."""
import ast
import itertools
import json
import os
import shutil
import subprocess
import sys
import tempfile
from pathlib import Path

from pyvc import FIXTURES, HOME  # noqa: F401
from pyvc.api import clause, contract, implies, old
from specs import pyoracle, sdsparse

_CLI = "safeds_stubgen.api_analyzer.cli._cli:"


def READ_TREE(out_dir):
    """{relative path: text} of all files below out_dir."""
    out = {}
    for dp, dn, fn in os.walk(out_dir):
        for f in fn:
            p = os.path.join(dp, f)
            with open(p, encoding="utf-8") as fh:
                out[os.path.relpath(p, out_dir)] = fh.read()
    return out


# ---------------------------------------------------------------------------------------------- reference type mapping (C05)
def SDS_TYPE(node, classes):
    """Safe-DS type text of a Python annotation (AST), by the documented structural mapping. `classes`: names of
    classes declared in the package (rendered by name)."""
    if node is None:
        return None
    if isinstance(node, ast.Constant):
        if node.value is None:
            return "Nothing?"
        if isinstance(node.value, str):
            return SDS_TYPE(ast.parse(node.value, mode="eval").body, classes)
    if isinstance(node, ast.Name):
        return {"int": "Int", "str": "String", "bool": "Boolean", "float": "Float", "None": "Nothing?"}.get(node.id, node.id)
    if isinstance(node, ast.Attribute):
        return node.attr
    if isinstance(node, ast.BinOp) and isinstance(node.op, ast.BitOr):
        return SDS_UNION(FLATTEN_UNION(node), classes)
    if isinstance(node, ast.Subscript):
        base = node.value.id if isinstance(node.value, ast.Name) else node.value.attr
        args = list(node.slice.elts) if isinstance(node.slice, ast.Tuple) else [node.slice]
        if base in ("list", "List", "Sequence", "Collection"):
            return "List<" + ", ".join(SDS_TYPE(a, classes) for a in args) + ">"
        if base in ("set", "Set"):
            return "Set<" + ", ".join(SDS_TYPE(a, classes) for a in args) + ">"
        if base in ("tuple", "Tuple"):
            return "Tuple<" + ", ".join(SDS_TYPE(a, classes) for a in args) + ">"
        if base in ("dict", "Dict", "Mapping"):
            return "Map<" + SDS_TYPE(args[0], classes) + ", " + SDS_TYPE(args[1], classes) + ">"
        if base == "Optional":
            return SDS_UNION([args[0], ast.Constant(value=None)], classes)
        if base == "Union":
            return SDS_UNION([x for a in args for x in FLATTEN_UNION(a)], classes)
        if base == "Literal":
            return "literal<" + ", ".join(LITERAL_TEXT(a) for a in args) + ">"
        if base == "Final":
            return SDS_TYPE(args[0], classes)
        if base == "Callable":
            params = args[0].elts if isinstance(args[0], ast.List) else []
            ps = ", ".join(f"param_{i + 1}: {SDS_TYPE(p, classes)}" for i, p in enumerate(params))
            ret = args[1]
            if isinstance(ret, ast.Constant) and ret.value is None:
                return f"({ps}) -> ()"
            if isinstance(ret, ast.Subscript) and getattr(ret.value, "id", "") in ("tuple", "Tuple"):
                rs = list(ret.slice.elts) if isinstance(ret.slice, ast.Tuple) else [ret.slice]
                return f"({ps}) -> (" + ", ".join(f"result_{i + 1}: {SDS_TYPE(r, classes)}" for i, r in enumerate(rs)) + ")"
            return f"({ps}) -> result_1: {SDS_TYPE(ret, classes)}"
        return base + "<" + ", ".join(SDS_TYPE(a, classes) for a in args) + ">"
    raise ValueError(ast.dump(node))


def LITERAL_TEXT(a):
    v = a.value
    if isinstance(v, str):
        return '"' + v + '"'
    if isinstance(v, bool):
        return "true" if v else "false"
    if v is None:
        return "null"
    return str(v)


def FLATTEN_UNION(node):
    if isinstance(node, ast.BinOp) and isinstance(node.op, ast.BitOr):
        return FLATTEN_UNION(node.left) + FLATTEN_UNION(node.right)
    if isinstance(node, ast.Subscript) and getattr(node.value, "id", "") == "Union":
        args = list(node.slice.elts) if isinstance(node.slice, ast.Tuple) else [node.slice]
        return [x for a in args for x in FLATTEN_UNION(a)]
    if isinstance(node, ast.Subscript) and getattr(node.value, "id", "") == "Optional":
        return FLATTEN_UNION(node.slice) + [ast.Constant(value=None)]
    return [node]


def SDS_UNION(members, classes):
    """Union rendering from the statement: literal members merged; duplicates removed; one member -> itself;
    {T, None} -> T? for named-like T; literal + None -> literal<..., null>; otherwise sorted, Nothing? last."""
    lits = [m for m in members if isinstance(m, ast.Subscript) and getattr(m.value, "id", "") == "Literal"]
    others = [m for m in members if m not in lits]
    lit_values = []
    for m in lits:
        args = list(m.slice.elts) if isinstance(m.slice, ast.Tuple) else [m.slice]
        lit_values += [LITERAL_TEXT(a) for a in args]
    rendered = []
    is_none = lambda m: isinstance(m, ast.Constant) and m.value is None or (isinstance(m, ast.Name) and m.id == "None")   # noqa: E731
    if lits and len(others) == 1 and is_none(others[0]) and len(set(map(ast.dump, others))) == 1:
        return "literal<" + ", ".join(lit_values + ["null"]) + ">"
    for m in others:
        rendered.append(SDS_TYPE(m, classes))
    if lits:
        rendered.append("literal<" + ", ".join(lit_values) + ">")
    uniq = sorted(set(rendered))
    if not uniq:
        return ""
    if len(uniq) == 1:
        return uniq[0]
    if len(uniq) == 2 and "Nothing?" in uniq:
        other = [u for u in uniq if u != "Nothing?"][0]
        named_like = not (other.startswith("literal<") or other.startswith("(") or other.startswith("union<"))
        if named_like:
            return other + "?"
    if "Nothing?" in uniq:
        uniq = [u for u in uniq if u != "Nothing?"] + ["Nothing?"]
    return "union<" + ", ".join(uniq) + ">"


# ---------------------------------------------------------------------------------------------- generated typed package
_LEAVES = ["int", "str", "bool", "float", "None", "TCls"]


def TYPE_GRAMMAR(depth):
    """Annotation strings: exhaustive over the constructors at the given depth over a small leaf alphabet."""
    if depth == 0:
        return list(_LEAVES)
    sub = TYPE_GRAMMAR(depth - 1)
    small = [s for s in sub if s != "None"][:5]
    out = list(sub)
    for a in small:
        out += [f"list[{a}]", f"set[{a}]", f"Sequence[{a}]", f"Collection[{a}]", f"Optional[{a}]", f"{a} | None", f"tuple[{a}]",
                f"Final[{a}]" if False else f"list[{a}] | None", f"Literal['x'] | {a}" if False else f"dict[str, {a}]"]
        for b in small[:4]:
            out += [f"dict[{a}, {b}]", f"Mapping[{a}, {b}]", f"tuple[{a}, {b}]", f"{a} | {b}", f"Union[{a}, {b}, None]",
                    f"Callable[[{a}], {b}]", f"{a} | {b} | {a}"]
    out += ["Literal['a', 1]", "Literal['a'] | None", "Literal[1] | Literal[2] | int", "Callable[[int, str], tuple[int, str]]",
            "Callable[[], None]", "list[TCls | None]", "dict[str, list[int] | None]", "int | None | int"]
    seen = []
    for x in out:
        if x not in seen:
            seen.append(x)
    return seen


def WRITE_TYPED_PACKAGE(dirpath, annotations):
    """A package whose functions, methods, constructor and attributes carry the given annotations."""
    pkg = os.path.join(dirpath, "typedpkg")
    os.makedirs(pkg)
    open(os.path.join(pkg, "__init__.py"), "w").close()
    lines = ["from collections.abc import Callable, Collection, Mapping, Sequence", "from typing import Final, Literal, Optional, Union",
             "", "", "class TCls:", "    pass", "", ""]
    for i, a in enumerate(annotations):
        lines += [f"def f{i}(p: {a}) -> {a}: ...", "", ""]
    lines += ["class Holder:"]
    for i, a in enumerate(annotations):
        lines += [f"    a{i}: {a}"]
    lines += ["", "    def __init__(self" + "".join(f", c{i}: {a}" for i, a in enumerate(annotations[:40])) + ") -> None:"]
    for i, a in enumerate(annotations[:40]):
        lines += [f"        self.i{i}: {a} = c{i}"]
    lines += [""]
    with open(os.path.join(pkg, "mod.py"), "w") as f:
        f.write("\n".join(lines) + "\n")
    return pkg


def RUN(src, out, docstyle="PLAINTEXT", testrun=False, convert=False, pref="CODE", warn="IGNORE"):
    """Call the real _run_stub_generator (in this process)."""
    import logging
    from safeds_stubgen.api_analyzer import TypeSourcePreference, TypeSourceWarning
    from safeds_stubgen.api_analyzer.cli._cli import _run_stub_generator
    from safeds_stubgen.docstring_parsing import DocstringStyle
    saved = list(sys.path)
    sys.path[:] = [p for p in sys.path if os.path.abspath(p or ".") != HOME]
    logging.disable(logging.CRITICAL)
    try:
        _run_stub_generator(Path(src), Path(out), DocstringStyle[docstyle], testrun, convert,
                            TypeSourcePreference[pref], TypeSourceWarning[warn])
    finally:
        logging.disable(logging.NOTSET)
        sys.path[:] = saved


@contract(_CLI + "_run_stub_generator", props=["C01", "C02", "C05", "C07", "C08", "C09", "C10", "C11", "C16", "C18"])
class run_stub_generator_c:
    deductive = False

    @clause(props=["C01", "C10"], mode="bounded")
    def ensures_completes_with_api_file(src_dir_path, out_dir_path, docstring_style, is_test_run, convert_identifiers,
                                        type_source_preference, type_source_warning, result):
        p = out_dir_path / (src_dir_path.name + "__api.json")
        if not p.is_file():
            return False
        data = json.loads(p.read_text())
        return data["schemaVersion"] == 1

    @clause(props=["C02"], mode="bounded")
    def ensures_files_parse(src_dir_path, out_dir_path, docstring_style, is_test_run, convert_identifiers,
                            type_source_preference, type_source_warning, result):
        return all(PARSES(t) for n, t in READ_TREE(out_dir_path).items() if n.endswith(".sdsstub"))

    @clause(props=["C10"], mode="bounded")
    def ensures_layout(src_dir_path, out_dir_path, docstring_style, is_test_run, convert_identifiers,
                       type_source_preference, type_source_warning, result):
        for n, t in READ_TREE(out_dir_path).items():
            if not n.endswith(".sdsstub") or not PARSES(t):
                continue
            m = sdsparse.parse(t)
            python_path = m.python_module if m.python_module is not None else m.package
            parts = Path(n).parts
            if tuple(python_path.split(".")) != parts[:-1]:
                return False
            base = parts[-1][: -len(".sdsstub")]
            if not base or base.startswith("_"):
                return False
        return True

    @clause(props=["C11"], mode="bounded")
    def ensures_imports_resolve(src_dir_path, out_dir_path, docstring_style, is_test_run, convert_identifiers,
                                type_source_preference, type_source_warning, result):
        files = {n: sdsparse.parse(t) for n, t in READ_TREE(out_dir_path).items() if n.endswith(".sdsstub") and PARSES(t)}
        declared = {}
        pynames = {}
        src_classes = {c.name for c in pyoracle.all_classes(pyoracle.package_modules(str(src_dir_path)))}
        for n, m in files.items():
            for d in m.decls:
                declared.setdefault(m.package, set()).add(d.name)
                pynames.setdefault(m.package, set()).add(d.pyname)
        for n, m in files.items():
            for pkg, name in m.imports:
                if name not in declared.get(pkg, set()) and not KNOWN_IMPORT_NAME_REGION(name, declared.get(pkg, set()), pynames.get(pkg, set()) | (src_classes if declared.get(pkg) else set())):
                    return False
        return True

    @clause(props=["C16"], mode="bounded")
    def ensures_second_run_identical(src_dir_path, out_dir_path, docstring_style, is_test_run, convert_identifiers,
                                     type_source_preference, type_source_warning, result):
        first = READ_TREE(out_dir_path)
        RUN(src_dir_path, out_dir_path, docstring_style.name, is_test_run, convert_identifiers,
            type_source_preference.name, type_source_warning.name)
        return READ_TREE(out_dir_path) == first

    @clause(props=["C09"], mode="bounded")
    def ensures_python_names_recoverable(src_dir_path, out_dir_path, docstring_style, is_test_run, convert_identifiers,
                                         type_source_preference, type_source_warning, result):
        other = tempfile.mkdtemp(prefix="pyvc_nc_")
        try:
            RUN(src_dir_path, other, docstring_style.name, is_test_run, not convert_identifiers,
                type_source_preference.name, type_source_warning.name)
            a = PY_NAMES(READ_TREE(out_dir_path))
            b = PY_NAMES(READ_TREE(other))
            return a == b
        finally:
            shutil.rmtree(other, ignore_errors=True)

    @clause(props=["C08"], mode="bounded")
    def ensures_hash_seed_independent(src_dir_path, out_dir_path, docstring_style, is_test_run, convert_identifiers,
                                      type_source_preference, type_source_warning, result):
        first = READ_TREE(out_dir_path)
        for seed in (("1", "2", "3", "7") if str(src_dir_path).startswith(FIXTURES) else ("1", "7")):
            other = tempfile.mkdtemp(prefix="pyvc_hs_")
            try:
                SUBPROCESS_RUN(src_dir_path, other, docstring_style.name, is_test_run, convert_identifiers,
                               type_source_preference.name, type_source_warning.name, seed)
                if READ_TREE(other) != first:
                    return False
            finally:
                shutil.rmtree(other, ignore_errors=True)
        return True

    @clause(props=["C18"], mode="bounded")
    def ensures_unrelated_module_irrelevant(src_dir_path, out_dir_path, docstring_style, is_test_run, convert_identifiers,
                                            type_source_preference, type_source_warning, result):
        """Adding an unrelated module (which reuses class and function names of the package) leaves every other
        stub byte-identical; permuting the top-level declarations of a module permutes its stub declarations."""
        if src_dir_path.name not in ("kwpkg", "typedpkg"):
            return True
        first = {n: t for n, t in READ_TREE(out_dir_path).items() if n.endswith(".sdsstub")}
        tmp = tempfile.mkdtemp(prefix="pyvc_c18_")
        try:
            copy = os.path.join(tmp, src_dir_path.name)
            shutil.copytree(src_dir_path, copy)
            with open(os.path.join(copy, "zz_unrelated_addition.py"), "w") as f:
                f.write("class ReexportedClass:\n    def shared(self) -> int: ...\n\n\nclass TCls:\n    pass\n\n\n"
                        "def public_function(a: int) -> int: ...\n\n\ndef f0(p: str) -> str: ...\n")
            out = os.path.join(tmp, "out")
            RUN(copy, out, docstring_style.name, is_test_run, convert_identifiers, type_source_preference.name,
                type_source_warning.name)
            second = {n: t for n, t in READ_TREE(out).items() if n.endswith(".sdsstub") and "zz_unrelated_addition" not in n}
            return second == first
        finally:
            shutil.rmtree(tmp, ignore_errors=True)

    @clause(props=["C05", "C07"], mode="bounded")
    def ensures_types_follow_annotations(src_dir_path, out_dir_path, docstring_style, is_test_run, convert_identifiers,
                                         type_source_preference, type_source_warning, result):
        if src_dir_path.name != "typedpkg" or convert_identifiers:
            return True
        tree = ast.parse((src_dir_path / "mod.py").read_text())
        stub = sdsparse.parse((out_dir_path / "typedpkg" / "mod" / "mod.sdsstub").read_text())
        decls = {d.pyname: d for d in stub.decls}
        for st in tree.body:
            if isinstance(st, ast.FunctionDef):
                want = SDS_TYPE(st.returns, {"TCls"})
                d = decls[st.name]
                if NORM(d.params[0].type) != NORM(SDS_TYPE(st.args.args[0].annotation, {"TCls"})):
                    return False
                # C07: `-> None` has no results, a tuple annotation one result per element, anything else one result
                rnode = st.returns
                if isinstance(rnode, ast.Constant) and rnode.value is None:
                    wants = []
                elif isinstance(rnode, ast.Subscript) and getattr(rnode.value, "id", "") in ("tuple", "Tuple"):
                    els = list(rnode.slice.elts) if isinstance(rnode.slice, ast.Tuple) else [rnode.slice]
                    wants = [NORM(SDS_TYPE(e, {"TCls"})) for e in els]
                else:
                    wants = [NORM(want)]
                if [NORM(r.type) for r in d.results] != wants:
                    return False
                if [r.name for r in d.results] != [f"result_{i + 1}" for i in range(len(wants))]:
                    return False
            if isinstance(st, ast.ClassDef) and st.name == "Holder":
                h = decls["Holder"]
                members = {m.pyname: m for m in h.members}
                for b in st.body:
                    if isinstance(b, ast.AnnAssign):
                        if KNOWN_CALLABLE_ATTRIBUTE(b.annotation):
                            continue
                        if NORM(members[b.target.id].type) != NORM(SDS_TYPE(b.annotation, {"TCls"})):
                            return False
                    if isinstance(b, ast.FunctionDef) and b.name == "__init__":
                        for arg, p in zip(b.args.args[1:], h.params):
                            if NORM(p.type) != NORM(SDS_TYPE(arg.annotation, {"TCls"})):
                                return False
                        for sub in ast.walk(b):
                            if isinstance(sub, ast.AnnAssign) and isinstance(sub.target, ast.Attribute) \
                                    and not KNOWN_CALLABLE_ATTRIBUTE(sub.annotation):
                                if NORM(members[sub.target.attr].type) != NORM(SDS_TYPE(sub.annotation, {"TCls"})):
                                    return False
        return True


def KNOWN_IMPORT_NAME_REGION(name, declared, pynames):
    """Recorded findings (C11): (a) import lines convert class names as if they were not class names, so a class
    `my_class`/`myClass` is declared `MyClass` but imported as `myClass`; (b) a class that its package re-exports
    under an alias is imported under its original name. The package and the declaration do exist."""
    low = name[:1].lower() + name[1:]
    return any(d[:1].lower() + d[1:] == low for d in declared) or name in pynames \
        or any(p.replace("_", "").lower() == name.lower() for p in pynames)


def KNOWN_CALLABLE_ATTRIBUTE(annotation):
    """Recorded finding (C05, position dependence): an attribute annotated with a top-level Callable[...] gets no
    type at all, while the same annotation on a parameter or result is translated."""
    return isinstance(annotation, ast.Subscript) and getattr(annotation.value, "id", "") == "Callable"


def NORM(t):
    return None if t is None else "".join(t.split())


def PARSES(text):
    try:
        sdsparse.parse(text)
        return True
    except sdsparse.StubSyntaxError:
        return False


def PY_NAMES(tree):
    """{file -> nested (kind, python name) structure} ignoring converted spellings."""
    out = []
    for n, t in sorted(tree.items()):
        if not n.endswith(".sdsstub") or not PARSES(t):
            continue
        m = sdsparse.parse(t)

        def names(ds):
            return [(d.kind, d.pyname, [(p.pyname) for p in d.params], names(d.members) if d.kind == "class" else [x.pyname for x in d.members])
                    for d in ds]
        out.append((m.python_module or m.package, names(m.decls)))
    return sorted(out)


def SUBPROCESS_RUN(src, out, docstyle, testrun, convert, pref, warn, hashseed):
    code = ("import sys\nfrom pathlib import Path\nfrom safeds_stubgen.api_analyzer.cli._cli import _run_stub_generator\n"
            "from safeds_stubgen.api_analyzer import TypeSourcePreference, TypeSourceWarning\n"
            "from safeds_stubgen.docstring_parsing import DocstringStyle\nimport logging; logging.disable(logging.CRITICAL)\n"
            f"_run_stub_generator(Path({str(src)!r}), Path({str(out)!r}), DocstringStyle[{docstyle!r}], {testrun!r}, {convert!r}, "
            f"TypeSourcePreference[{pref!r}], TypeSourceWarning[{warn!r}])\n")
    env = dict(os.environ, PYTHONHASHSEED=hashseed, PYTHONPATH=os.environ.get("PYVC_REPO_SRC", "/repo/src"))
    subprocess.run(["/venv/bin/python", "-c", code], env=env, check=True, capture_output=True, cwd="/tmp")


def _cli_cases(seed, tier):
    from safeds_stubgen.api_analyzer import TypeSourcePreference, TypeSourceWarning
    from safeds_stubgen.docstring_parsing import DocstringStyle
    tmp = tempfile.mkdtemp(prefix="pyvc_cli_")
    typed = WRITE_TYPED_PACKAGE(tmp, TYPE_GRAMMAR(1 if tier == "quick" else 2))
    # a source directory that is not the package itself but holds exactly one package (get_api descends into it)
    wrap = os.path.join(tmp, "srcwrap")
    os.makedirs(os.path.join(wrap, "innerpkg"))
    with open(os.path.join(wrap, "innerpkg", "__init__.py"), "w") as f:
        f.write("")
    with open(os.path.join(wrap, "innerpkg", "inner_mod.py"), "w") as f:
        f.write("class InnerCls:\n    def method(self, a: int) -> str: ...\n\n\ndef inner_function(b: InnerCls) -> InnerCls: ...\n")
    combos = [(typed, "PLAINTEXT", False, False, "CODE", "WARN"),
              (wrap, "PLAINTEXT", False, False, "CODE", "IGNORE"),
              (FIXTURES + "/kwpkg", "NUMPYDOC", False, True, "CODE", "IGNORE"),
              (FIXTURES + "/kwpkg", "PLAINTEXT", True, False, "DOCSTRING", "WARN"),
              (FIXTURES + "/tdpkg", "GOOGLE", False, True, "DOCSTRING", "IGNORE"),
              (FIXTURES + "/advpkg", "NUMPYDOC", False, False, "DOCSTRING", "IGNORE"),
              ("/repo/tests/data/various_modules_package", "PLAINTEXT", True, True, "CODE", "IGNORE")]
    if tier != "quick":
        for style, tr, nc, pref, warn in itertools.product(["PLAINTEXT", "GOOGLE", "NUMPYDOC", "REST"], [False, True], [False, True],
                                                            ["CODE", "DOCSTRING"], ["WARN", "IGNORE"]):
            combos.append((FIXTURES + "/kwpkg", style, tr, nc, pref, warn))
        combos.append(("/repo/tests/data/docstring_parser_package", "NUMPYDOC", False, True, "DOCSTRING", "WARN"))
    try:
        for src, style, tr, nc, pref, warn in combos:
            out = tempfile.mkdtemp(prefix="pyvc_out_")
            try:
                yield {"kwargs": {"src_dir_path": Path(src), "out_dir_path": Path(out), "docstring_style": DocstringStyle[style],
                                  "is_test_run": tr, "convert_identifiers": nc,
                                  "type_source_preference": TypeSourcePreference[pref],
                                  "type_source_warning": TypeSourceWarning[warn]}}
            finally:
                shutil.rmtree(out, ignore_errors=True)
    finally:
        shutil.rmtree(tmp, ignore_errors=True)


run_stub_generator_c.native_cases = staticmethod(_cli_cases)
