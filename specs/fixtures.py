"""Native fixtures for the executable contracts: real API models produced by the real analyser on real packages
(the repository's own test data and the adversarial packages under /verif/fixtures/pkgs)."""
from __future__ import annotations

from pyvc import FIXTURES, HOME  # noqa: F401
import functools
import logging
import os

PKGS = [
    (FIXTURES + "/kwpkg", "numpydoc"),
    ("/repo/tests/data/various_modules_package", "plaintext"),
    (FIXTURES + "/advpkg", "numpydoc"),
    ("/repo/tests/data/docstring_parser_package", "numpydoc"),
    ("/repo/tests/data/docstring_parser_package", "google"),
    ("/repo/tests/data/docstring_parser_package", "rest"),
]
QUICK = PKGS[:3]


import contextlib


@contextlib.contextmanager
def hidden_verif():
    """The real code runs without /verif on sys.path (griffe names packages relative to sys.path entries)."""
    import sys
    saved = list(sys.path)
    sys.path[:] = [p for p in sys.path if os.path.abspath(p or ".") != HOME]
    try:
        yield
    finally:
        sys.path[:] = saved


@functools.lru_cache(maxsize=None)
def api_for(path, docstyle="plaintext", testrun=True, pref="code"):
    from pathlib import Path

    from safeds_stubgen.api_analyzer import TypeSourcePreference, TypeSourceWarning, get_api
    from safeds_stubgen.docstring_parsing import DocstringStyle
    import sys
    logging.disable(logging.CRITICAL)
    # griffe names a package relative to the sys.path entry that contains it: the fixture packages live under
    # /verif, which is on sys.path for the sidecar modules, so it is hidden while the analyser runs
    saved = list(sys.path)
    sys.path[:] = [p for p in sys.path if os.path.abspath(p or ".") != HOME]
    try:
        return get_api(Path(path), DocstringStyle.from_string(docstyle), testrun,
                       TypeSourcePreference.from_string(pref), TypeSourceWarning.IGNORE)
    finally:
        sys.path[:] = saved
        logging.disable(logging.NOTSET)


def apis(tier):
    for path, style in (QUICK if tier == "quick" else PKGS):
        if os.path.isdir(path):
            yield api_for(path, style)


def fresh_generator(api, convert, module=None):
    """A generator in the state __call__ establishes for `module`."""
    from safeds_stubgen.stubs_generator import StubsStringGenerator
    g = StubsStringGenerator(api, convert)
    if module is not None:
        g._set_module_id(module.id)
    g.reexport_module_id = ""
    g.class_generics = []
    g.module_imports = set()
    g._current_todo_msgs = set()
    return g


def modules_of(api):
    return [m for m in api.modules.values()]


def owner_module(api, decl_id):
    best = None
    for m in api.modules.values():
        if decl_id.startswith(m.id + "/") and (best is None or len(m.id) > len(best.id)):
            best = m
    return best
