"""Contracts for safeds_stubgen/stubs_generator/_helper.py and safeds_stubgen/_helpers.py."""
from pyvc.api import clause, contract, implies, ite, opaque
from safeds_stubgen.stubs_generator._helper import NamingConvention

# The 33 keywords of the Safe-DS grammar the property counts (oracle: the property statement / grammar).
KW33 = {"_", "and", "annotation", "as", "attr", "class", "const", "enum", "false", "from", "fun", "import", "in",
        "internal", "literal", "not", "null", "or", "out", "package", "pipeline", "private", "schema", "static",
        "segment", "sub", "this", "true", "union", "unknown", "val", "where", "yield"}


def ESC(name):
    """Back-quote escaping of keywords."""
    return (("`" + name + "`") if (name in KW33) else (name))


@contract("safeds_stubgen.stubs_generator._helper:_replace_if_safeds_keyword", props=["C02"])
class replace_kw:
    params = {"keyword": "str"}
    raises = ()

    def ensures_esc(keyword, result):
        return result == ESC(keyword)


@contract("safeds_stubgen._helpers:is_internal", props=["C04"])
class is_internal_c:
    params = {"name": "str"}
    raises = ()

    def ensures_prefix(name, result):
        return result == (len(name) > 0 and name[0] == "_")


@contract("safeds_stubgen.stubs_generator._helper:_create_name_annotation", props=["C09", "C02"])
class name_annotation:
    params = {"name": "str"}
    raises = ()

    def ensures_text(name, result):
        return result == '@PythonName("' + name + '")'


def CAP(part):
    return part[0].upper() + part[1:]


@opaque(returns="str")
def CONV(name, convention, is_class):
    """Naming conversion as the property describes it: surrounding underscores dropped, the remaining
    underscore-separated segments joined, every segment (class names) / every segment but the first
    (other names) capitalised; '_' and the PYTHON convention leave the name alone."""
    if name == "_" or convention == NamingConvention.PYTHON:
        return name
    start = len(name) - len(name.lstrip("_"))
    end = len(name) - len(name.rstrip("_"))
    core = name[start:] if end == 0 else name[start:-end]
    parts = core.split("_")
    if is_class:
        return "".join(CAP(p) for p in parts if p)
    return parts[0] + "".join(CAP(p) for p in parts[1:] if p)


@contract("safeds_stubgen.stubs_generator._helper:_convert_name_to_convention", props=["C09"])
class convert_name:
    params = {"name": "str", "naming_convention": "NamingConvention", "is_class_name": "bool"}
    raises = ()
    unfold = ["CONV"]

    def requires(name, naming_convention, is_class_name):
        return True

    @clause(mode="prove")
    def ensures_python_identity(name, naming_convention, is_class_name, result):
        return implies(naming_convention == NamingConvention.PYTHON, result == name)

    @clause(mode="prove")
    def ensures_single_underscore(name, naming_convention, is_class_name, result):
        return implies(name == "_", result == "_")

    @clause(mode="prove")
    def ensures_no_underscore(name, naming_convention, is_class_name, result):
        return implies(naming_convention == NamingConvention.SAFE_DS and name != "_", "_" not in result)

    @clause(mode="prove")
    def ensures_first_segment_kept(name, naming_convention, is_class_name, result):
        # non-class names: the text up to the first inner underscore is kept as written
        return implies(naming_convention == NamingConvention.SAFE_DS and not is_class_name and "_" not in name,
                       result == name)

    def ensures_function(name, naming_convention, is_class_name, result):
        return result == CONV(name, naming_convention, is_class_name)


def _conv_cases(seed, tier):
    """All identifiers over {a, B, 1, _} up to length 5 (quick) / 7 (thorough), both flags, both conventions, in an
    interleaved order (the same name is converted as class name and as non-class name in one process)."""
    import itertools
    n = 5 if tier == "quick" else 7
    for ln in range(0, n + 1):
        for t in itertools.product("aB1_", repeat=ln):
            name = "".join(t)
            for conv in (NamingConvention.SAFE_DS, NamingConvention.PYTHON):
                for is_class in (False, True, False):
                    yield {"kwargs": {"name": name, "naming_convention": conv, "is_class_name": is_class}}
    for name in ("my_class_name", "__dunder__", "_private_thing_", "already_CamelCase", "x_1_y", "snake_case_with_many_parts"):
        for is_class in (True, False):
            yield {"kwargs": {"name": name, "naming_convention": NamingConvention.SAFE_DS, "is_class_name": is_class}}


convert_name.native_cases = staticmethod(_conv_cases)


def _kw_cases(seed, tier):
    import itertools
    for k in sorted(KW33) + ["Val", "vals", "", "class_", "_class", "`val`", "In", "fun1"]:
        yield {"kwargs": {"keyword": k}}
    for t in itertools.product("valn_", repeat=3):
        yield {"kwargs": {"keyword": "".join(t)}}


replace_kw.native_cases = staticmethod(_kw_cases)
