"""Strict forms of clauses whose regular form excludes a recorded finding's region: replayed on the witness of each
entry of /verif/known_findings.json on every run (KNOWN-FINDING line while the defect is still there)."""
import os
import re
import tempfile
from pathlib import Path

from pyvc import FIXTURES, HOME  # noqa: F401
from pyvc.api import clause, contract
from safeds_stubgen.api_analyzer import TypeSourcePreference, TypeSourceWarning
from safeds_stubgen.docstring_parsing import DocstringStyle
from specs import sdsparse
from specs.cli import PARSES, READ_TREE

_CLI = "safeds_stubgen.api_analyzer.cli._cli:"


def ARGS(src, convert=False, style="PLAINTEXT"):
    if src.startswith("/verif/"):      # witnesses in known_findings.json name the fixtures by their usual place
        src = HOME + src[len("/verif"):]
    return {"src_dir_path": Path(src), "out_dir_path": Path(tempfile.mkdtemp(prefix="pyvc_kf_")), "docstring_style": DocstringStyle[style],
            "is_test_run": True, "convert_identifiers": convert, "type_source_preference": TypeSourcePreference.CODE,
            "type_source_warning": TypeSourceWarning.IGNORE}


def _stubs(out_dir_path):
    return {n: t for n, t in READ_TREE(out_dir_path).items() if n.endswith(".sdsstub")}


@contract(_CLI + "_run_stub_generator", props=[])
class findings_c:
    deductive = False

    def native_call(fn, **kw):
        import logging, sys
        saved = list(sys.path)
        sys.path[:] = [p for p in sys.path if os.path.abspath(p or ".") != HOME]
        logging.disable(logging.CRITICAL)
        try:
            return fn(**kw)
        finally:
            logging.disable(logging.NOTSET)
            sys.path[:] = saved

    def ensures_package_segments_escaped(out_dir_path, result):
        for t in _stubs(out_dir_path).values():
            for m in re.finditer(r"^package (.+)$", t, re.M):
                if any(seg in sdsparse.KEYWORDS for seg in m.group(1).split(".")):
                    return False
        return True

    def ensures_doc_comments_closed(out_dir_path, result):
        return all(t.count("/**") == t.count("*/") for t in _stubs(out_dir_path).values())

    def ensures_string_defaults_closed(out_dir_path, result):
        return not any(re.search(r'= "[^"\n]*"[^,\n)]', t) for t in _stubs(out_dir_path).values())

    def ensures_enum_names_escaped(out_dir_path, result):
        return not any(re.search(r"^enum (%s)\b" % "|".join(sorted(sdsparse.KEYWORDS - {"_"})), t, re.M) for t in _stubs(out_dir_path).values())

    def ensures_private_enum_hidden(out_dir_path, result):
        return not any(re.search(r"^enum _", t, re.M) for t in _stubs(out_dir_path).values())

    def ensures_relative_reexport_public(out_dir_path, result):
        return any("fun public_name(" in t or "fun relative_reexport(" in t for t in _stubs(out_dir_path).values())

    def ensures_imports_have_stub_package(out_dir_path, result):
        stubs = _stubs(out_dir_path)
        packages = set()
        for t in stubs.values():
            for m in re.finditer(r"^package (.+)$", t, re.M):
                packages.add(m.group(1))
        for t in stubs.values():
            for m in re.finditer(r"^from (\S+) import (\S+)$", t, re.M):
                if m.group(1) not in packages:
                    return False
        return True

    def ensures_import_names_declared(out_dir_path, result):
        files = [sdsparse.parse(t) for t in _stubs(out_dir_path).values() if PARSES(t)]
        declared = {}
        for m in files:
            for d in m.decls:
                declared.setdefault(m.package, set()).add(d.name)
        return all(name in declared.get(pkg, set()) for m in files for pkg, name in m.imports)

    def ensures_init_only_package_declared(out_dir_path, result):
        return any("fun only_in_init(" in t for t in _stubs(out_dir_path).values())

    def ensures_callable_attribute_typed(out_dir_path, result):
        return not any(re.search(r"attr callable_attr\s*$", t, re.M) for t in _stubs(out_dir_path).values())
