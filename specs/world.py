"""Declared shapes of external objects (mypy, griffe, pathlib) used by contracts.

SCHEMA: external class qualified name -> {attribute: shape}. These are assumptions about the installed
libraries' data model (listed in the evidence); class hierarchies themselves are read from the libraries.
"""
import mypy.nodes as mp_nodes  # noqa: F401
import mypy.types as mp_types  # noqa: F401
from mypy.nodes import ArgKind  # noqa: F401

SCHEMA = {
    "mypy.nodes.Argument": {"variable": "mp_nodes.Var", "kind": "ArgKind", "pos_only": "bool",
                            "initializer": "mp_nodes.Expression | None", "type_annotation": "mp_types.Type | None"},
    "mypy.nodes.Var": {"is_self": "bool", "is_cls": "bool", "name": "str", "fullname": "str",
                       "type": "mp_types.Type | None", "explicit_self_type": "bool", "is_inferred": "bool"},
}
