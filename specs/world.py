"""Declared shapes of external objects (mypy, griffe, pathlib) used by contracts."""
