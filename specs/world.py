"""Declared shapes of external objects (mypy, griffe, pathlib) used by contracts.

SCHEMA: external class qualified name -> {attribute: shape}. These are assumptions about the installed
libraries' data model (listed in the evidence); class hierarchies themselves are read from the libraries.
"""
import griffe.dataclasses  # noqa: F401
import griffe  # noqa: F401
from typing import Sequence  # noqa: F401
import argparse  # noqa: F401
import io  # noqa: F401
import pathlib  # noqa: F401
import mypy.build as mypy_build  # noqa: F401
import mypy.nodes as mp_nodes  # noqa: F401
import mypy.types as mp_types  # noqa: F401
from mypy.nodes import ArgKind  # noqa: F401
from safeds_stubgen.api_analyzer._api import API  # noqa: F401
from safeds_stubgen.api_analyzer import TypeSourcePreference, TypeSourceWarning  # noqa: F401
from safeds_stubgen.docstring_parsing import DocstringStyle  # noqa: F401
from safeds_stubgen.stubs_generator._helper import NamingConvention  # noqa: F401

SCHEMA = {
    "mypy.nodes.Argument": {"variable": "mp_nodes.Var", "kind": "ArgKind", "pos_only": "bool",
                            "initializer": "mp_nodes.Expression | None", "type_annotation": "mp_types.Type | None"},
    "mypy.nodes.NameExpr": {"name": "str", "fullname": "str"},
    "mypy.build.BuildResult": {"graph": "dict[str, mypy_build.State]"},
    "mypy.build.State": {"tree": "mp_nodes.MypyFile | None"},
    "mypy.nodes.MypyFile": {"name": "str", "fullname": "str", "path": "str"},
    "mypy.nodes.IntExpr": {"value": "int"},
    "mypy.nodes.StrExpr": {"value": "str"},
    "mypy.nodes.FloatExpr": {"value": "float"},
    "mypy.nodes.TupleExpr": {"items": "list[mp_nodes.Expression]"},
    "mypy.nodes.UnaryExpr": {"expr": "mp_nodes.Expression"},
    "mypy.nodes.Var": {"is_self": "bool", "is_cls": "bool", "name": "str", "fullname": "str",
                       "type": "mp_types.Type | None", "explicit_self_type": "bool", "is_inferred": "bool"},
}

# pathlib: `parts` (a tuple of str) is modelled as a list of str — only membership, indexing, slicing and iteration are used
SCHEMA.update({
    "argparse.Namespace": {"src": "pathlib.Path", "out": "pathlib.Path", "testrun": "bool", "naming_convert": "bool",
                           "verbose": "bool", "docstyle": "DocstringStyle", "type_source_preference": "TypeSourcePreference",
                           "show_type_source_warning": "TypeSourceWarning"},
    "pathlib.PurePath": {"stem": "str", "name": "str", "parts": "list[str]", "parent": "pathlib.Path"},
    "_griffe.expressions.Expr": {"canonical_path": "str", "canonical_name": "str"},
    "_griffe.expressions.ExprSubscript": {"slice": "griffe.Expr | str", "left": "griffe.Expr | str"},
    "_griffe.expressions.ExprTuple": {"elements": "list[griffe.Expr | str]"},
    "_griffe.expressions.ExprList": {"elements": "list[griffe.Expr | str]"},
    "_griffe.expressions.ExprBoolOp": {"values": "list[griffe.Expr | str]"},
    "_griffe.expressions.ExprBinOp": {"left": "griffe.Expr | str", "right": "griffe.Expr | str"},
})

# assumed result shapes of external functions (otherwise their results are unconstrained values)
EXTERNAL_RETURNS = {
    "pathlib.Path.resolve": "pathlib.Path",
    "pathlib.Path.glob": "list[pathlib.Path]",
    "pathlib.PurePath.joinpath": "pathlib.Path",
    "pathlib.Path.open": "io.TextIOWrapper",
    "pathlib.Path.exists": "bool",
    "griffe.docstrings.utils.parse_annotation": "griffe.Expr | str",
    "_griffe.docstrings.utils.parse_docstring_annotation": "griffe.Expr | str",
}

# un-annotated instance attributes of repo classes (shape = what the constructor stores)
# pathlib: `parts` (a tuple of str) is modelled as a list of str — only membership, indexing, slicing and iteration are used
SCHEMA.update({
    "safeds_stubgen.stubs_generator._stub_string_generator.StubsStringGenerator": {
        "api": "API", "naming_convention": "NamingConvention", "reexport_module_id": "str"},
    "safeds_stubgen.docstring_parsing._docstring_parser.DocstringParser": {
        "_DocstringParser__cached_node": "str | None", "_DocstringParser__cached_docstring": "griffe.dataclasses.Docstring | None",
        "parser": "griffe.Parser"},
    "safeds_stubgen.api_analyzer._ast_visitor.MyPyAstVisitor": {"mypy_file": "mp_nodes.MypyFile | None"},
    "safeds_stubgen.api_analyzer._api.QualifiedImport": {"qualified_name": "str", "alias": "str | None"},
})

# named record shapes (dictionaries with constant keys): the output format of AbstractType.to_dict
RECORDS = {
    "TypeDict": {"kind": "str", "name": "str", "qname": "str", "types": "list[TypeDict]", "type": "TypeDict",
                 "parameter_types": "list[TypeDict]", "return_type": "TypeDict", "key_type": "TypeDict",
                 "value_type": "TypeDict", "literals": "list", "upper_bound": "TypeDict | None",
                 "base_type": "str", "min_inclusive": "bool", "max_inclusive": "bool"},
}
