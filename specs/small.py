"""Deductive contracts on small functions that carry parts of C10, C11, C13, C17, C18."""
from pyvc.api import clause, contract, implies, old, opaque
from specs.helper import CONV, ESC

_GS = "safeds_stubgen.stubs_generator._generate_stubs:"
_V = "safeds_stubgen.api_analyzer._ast_visitor:MyPyAstVisitor."
_D = "safeds_stubgen.docstring_parsing._docstring_parser:DocstringParser."
_G = "safeds_stubgen.stubs_generator._stub_string_generator:StubsStringGenerator."


@contract(_GS + "_create_outside_package_class_text", props=["C10", "C11", "C02", "C09"])
class outside_class_text:
    """Placeholder declaration for a class of another library: `class <escaped converted name>` with a
    @PythonName annotation exactly when the converted name differs."""
    params = {"class_name": "str", "naming_convention": "NamingConvention"}
    raises = ()

    def ensures_text(class_name, naming_convention, result):
        conv = CONV(class_name, naming_convention, True)
        ann = ('\n@PythonName("' + class_name + '")') if class_name != conv else ""
        return result == ann + "\nclass " + ESC(conv) + "\n"


@contract(_V + "_search_alias_in_qualified_imports", props=["C18", "C08"])
class search_alias:
    """Imports of the current module take precedence by position: the first import whose alias or last name
    segment equals the searched name."""
    params = {"qualified_imports": "list[QualifiedImport]", "alias_name": "str"}
    safety = False

    def ensures_first_match(qualified_imports, alias_name, result):
        for qi in qualified_imports:
            if alias_name == qi.alias or alias_name == qi.qualified_name.split(".")[-1]:
                return result == (qi.qualified_name.split(".")[-1], qi.qualified_name)
        return result == ("", "")


@contract(_G + "_get_module_id", props=["C10", "C18"])
class get_module_id:
    params = {"get_actual_id": "bool"}
    raises = ()
    modifies = []

    def ensures_id(self, get_actual_id, result):
        return result == (self.module_id if (get_actual_id or not self.currently_creating_reexport_data) else self.reexport_module_id)


@contract(_G + "_set_module_id", props=["C10", "C18", "C16"])
class set_module_id:
    params = {"module_id": "str"}
    raises = ()
    modifies = ["self.module_id", "self.reexport_module_id"]

    def ensures_set(self, module_id):
        return (self.reexport_module_id == module_id and self.module_id == old(self.module_id)) \
            if self.currently_creating_reexport_data else \
            (self.module_id == module_id)


# ---------------------------------------------------------------------------------------------- docstring cache (C13)
@opaque(ann="griffe.dataclasses.Object | None")
def NODE(parser, qname):
    """The griffe node a qualified name denotes (a function of the immutable griffe tree; assumed)."""
    return parser._get_griffe_node(qname)


def DOC(parser, qname):
    n = NODE(parser, qname)
    return n.docstring if n is not None else None


@contract(_D + "_get_griffe_node", props=["C13"], verify=False)
class get_griffe_node:
    params = {"qname": "str"}
    modifies = []

    def ensures_node(self, qname, result):
        return result == NODE(self, qname)


@contract(_D + "__get_cached_docstring", props=["C13"])
class cached_docstring:
    """One-entry cache: whatever was asked before, the answer for qname is the docstring of qname's node, and the
    cache stays consistent (entry name -> docstring of that name)."""
    params = {"qname": "str"}
    modifies = ["self._DocstringParser__cached_node", "self._DocstringParser__cached_docstring"]
    safety = False

    def requires(self, qname):
        return self._DocstringParser__cached_node is None \
            or self._DocstringParser__cached_docstring == DOC(self, self._DocstringParser__cached_node)

    def ensures_answer(self, qname, result):
        return result == DOC(self, qname)

    def ensures_cache_consistent(self, qname):
        return self._DocstringParser__cached_node == qname and self._DocstringParser__cached_docstring == DOC(self, qname)


# ---------------------------------------------------------------------------------------------- class lookup (C17)
@contract(_G + "_get_class_in_package", props=["C17", "C01"])
class get_class_in_package:
    """Lookup of a (private) superclass: the class registered under exactly that id, else the first registered
    class whose id ends with the id or lies below the named package and has the same class name; LookupError
    exactly when there is none."""
    params = {"class_qname": "str"}
    modifies = []
    safety = False

    def raises_LookupError(self, class_qname):
        cid = class_qname.replace(".", "/")
        path = "/".join(cid.split("/")[:-1])
        name = cid.split("/")[-1]
        return cid not in self.api.classes and not any(
            k.endswith(cid) or (k.startswith(path + "/") and k.endswith("/" + name)) for k in self.api.classes)

    def ensures_lookup(self, class_qname, result):
        cid = class_qname.replace(".", "/")
        path = "/".join(cid.split("/")[:-1])
        name = cid.split("/")[-1]
        if cid in self.api.classes:
            return result is self.api.classes[cid]
        for k in self.api.classes:
            if k.endswith(cid) or (k.startswith(path + "/") and k.endswith("/" + name)):
                return result is self.api.classes[k]
        return False


# ---------------------------------------------------------------------------------------------- ids (C12)
@contract(_V + "_create_id_from_stack", props=["C12"])
class create_id_from_stack:
    """'<owner id>/<name>': module id of the stack bottom, then the names of the enclosing declarations (entries
    that are assignment lists do not contribute), then the new name, joined by '/'."""
    params = {"name": "str"}
    modifies = []
    safety = False

    def ensures_id(self, name, result):
        from safeds_stubgen.api_analyzer._api import Module
        segs = [(it.id if isinstance(it, Module) else it.name) for it in self._MyPyAstVisitor__declaration_stack
                if not isinstance(it, list)]
        return result == "/".join(segs + [name])

    def ensures_suffix(self, name, result):
        return result.endswith(name)


# ---------------------------------------------------------------------------------------------- publicity (C04)
@opaque(ann="bool | None")
def REEXP(visitor, name, qname, parent):
    """What the re-export table says about a declaration: True (re-exported under a public name) or None."""
    return visitor._check_publicity_in_reexports(name, qname, parent)


@contract(_V + "_check_publicity_in_reexports", props=["C04"], verify=False)
class check_publicity_in_reexports:
    modifies = []

    def ensures_table(self, name, qname, parent, result):
        return result == REEXP(self, name, qname, parent)


def IS_DUNDER(name):
    return name.startswith("__") and name.endswith("__")


@contract(_V + "_is_public", props=["C04", "C01"])
class is_public:
    """Publicity of a declaration (C04): unless the re-export table makes it public, a declaration is private iff
    its name has a leading underscore and is not a dunder name, or its owner / an enclosing module or package
    segment is private."""
    params = {"name": "str", "qname": "str"}
    modifies = []
    safety = False

    def requires(self, name, qname):
        from safeds_stubgen.api_analyzer._api import Class, Function, Module
        stack = self._MyPyAstVisitor__declaration_stack
        return self.mypy_file is not None and len(stack) > 0 and (
            isinstance(stack[-1], Module) or isinstance(stack[-1], Class)
            or (isinstance(stack[-1], Function) and stack[-1].name == "__init__"))

    def ensures_publicity(self, name, qname, result):
        from safeds_stubgen.api_analyzer._api import Class, Function, Module
        parent = self._MyPyAstVisitor__declaration_stack[-1]
        if not isinstance(parent, Function):
            r = REEXP(self, name, qname, parent)
            if r is not None:
                return result == r
        if name.startswith("_") and not IS_DUNDER(name):
            return result is False
        if isinstance(parent, Class) and (name == "__init__" or not name.startswith("_")):
            return result == parent.is_public
        return result == all(not seg.startswith("_") for seg in qname.split(".")[:-1])
