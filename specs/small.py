"""Deductive contracts on small functions that carry parts of C10, C11, C13, C17, C18."""
from pyvc.api import clause, contract, implies, old, opaque
from specs.helper import CONV, ESC

_GS = "safeds_stubgen.stubs_generator._generate_stubs:"
_V = "safeds_stubgen.api_analyzer._ast_visitor:MyPyAstVisitor."
_D = "safeds_stubgen.docstring_parsing._docstring_parser:DocstringParser."
_G = "safeds_stubgen.stubs_generator._stub_string_generator:StubsStringGenerator."


@contract(_GS + "_create_outside_package_class_text", props=["C10", "C11", "C02", "C09"])
class outside_class_text:
    """Placeholder declaration for a class of another library: `class <escaped converted name>` with a
    @PythonName annotation exactly when the converted name differs."""
    params = {"class_name": "str", "naming_convention": "NamingConvention"}
    raises = ()

    def ensures_text(class_name, naming_convention, result):
        conv = CONV(class_name, naming_convention, True)
        ann = ('\n@PythonName("' + class_name + '")') if class_name != conv else ""
        return result == ann + "\nclass " + ESC(conv) + "\n"


@contract(_V + "_search_alias_in_qualified_imports", props=["C18", "C08"])
class search_alias:
    """Imports of the current module take precedence by position: the first import whose alias or last name
    segment equals the searched name."""
    params = {"qualified_imports": "list[QualifiedImport]", "alias_name": "str"}
    safety = False

    def ensures_first_match(qualified_imports, alias_name, result):
        for qi in qualified_imports:
            if alias_name == qi.alias or alias_name == qi.qualified_name.split(".")[-1]:
                return result == (qi.qualified_name.split(".")[-1], qi.qualified_name)
        return result == ("", "")


@contract(_G + "_get_module_id", props=["C10", "C18"])
class get_module_id:
    params = {"get_actual_id": "bool"}
    raises = ()
    modifies = []

    def ensures_id(self, get_actual_id, result):
        return result == (self.module_id if (get_actual_id or not self.currently_creating_reexport_data) else self.reexport_module_id)


@contract(_G + "_set_module_id", props=["C10", "C18", "C16"])
class set_module_id:
    params = {"module_id": "str"}
    raises = ()
    modifies = ["self.module_id", "self.reexport_module_id"]

    def ensures_set(self, module_id):
        return (self.reexport_module_id == module_id and self.module_id == old(self.module_id)) \
            if self.currently_creating_reexport_data else \
            (self.module_id == module_id)


# ---------------------------------------------------------------------------------------------- docstring cache (C13)
@opaque(ann="griffe.dataclasses.Object | None")
def NODE(parser, qname):
    """The griffe node a qualified name denotes (a function of the immutable griffe tree; assumed)."""
    return parser._get_griffe_node(qname)


def DOC(parser, qname):
    n = NODE(parser, qname)
    return n.docstring if n is not None else None


@contract(_D + "_get_griffe_node", props=["C13"], verify=False)
class get_griffe_node:
    params = {"qname": "str"}
    modifies = []

    def ensures_node(self, qname, result):
        return result == NODE(self, qname)


@contract(_D + "__get_cached_docstring", props=["C13"])
class cached_docstring:
    """One-entry cache: whatever was asked before, the answer for qname is the docstring of qname's node, and the
    cache stays consistent (entry name -> docstring of that name)."""
    params = {"qname": "str"}
    modifies = ["self._DocstringParser__cached_node", "self._DocstringParser__cached_docstring"]
    safety = False

    def requires(self, qname):
        return self._DocstringParser__cached_node is None \
            or self._DocstringParser__cached_docstring == DOC(self, self._DocstringParser__cached_node)

    def ensures_answer(self, qname, result):
        return result == DOC(self, qname)

    def ensures_cache_consistent(self, qname):
        return self._DocstringParser__cached_node == qname and self._DocstringParser__cached_docstring == DOC(self, qname)
