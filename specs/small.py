"""Deductive contracts on small functions that carry parts of C10, C11, C13, C17, C18."""
from pyvc.api import clause, contract, implies, old, opaque, shaped
import griffe  # noqa: F401
import safeds_stubgen.api_analyzer._types as sds_types  # noqa: F401
from safeds_stubgen.docstring_parsing._docstring_parser import DocstringParser  # noqa: F401
import pathlib  # noqa: F401
from safeds_stubgen.api_analyzer._api import API  # noqa: F401
from safeds_stubgen.stubs_generator._helper import NamingConvention  # noqa: F401
from safeds_stubgen.api_analyzer import TypeSourcePreference, TypeSourceWarning  # noqa: F401
from safeds_stubgen.docstring_parsing import DocstringStyle  # noqa: F401
from specs.helper import CONV, ESC
from safeds_stubgen._helpers import is_internal  # noqa: F401

_GS = "safeds_stubgen.stubs_generator._generate_stubs:"
_V = "safeds_stubgen.api_analyzer._ast_visitor:MyPyAstVisitor."
_D = "safeds_stubgen.docstring_parsing._docstring_parser:DocstringParser."
_G = "safeds_stubgen.stubs_generator._stub_string_generator:StubsStringGenerator."


@contract(_GS + "_create_outside_package_class_text", props=["C10", "C11", "C02", "C09"])
class outside_class_text:
    """Placeholder declaration for a class of another library: `class <escaped converted name>` with a
    @PythonName annotation exactly when the converted name differs."""
    params = {"class_name": "str", "naming_convention": "NamingConvention"}
    raises = ()

    def ensures_text(class_name, naming_convention, result):
        conv = CONV(class_name, naming_convention, True)
        ann = ('\n@PythonName("' + class_name + '")') if class_name != conv else ""
        return result == ann + "\nclass " + ESC(conv) + "\n"


@contract(_V + "_search_alias_in_qualified_imports", props=["C18", "C08"])
class search_alias:
    """Imports of the current module take precedence by position: the first import whose alias or last name
    segment equals the searched name."""
    params = {"qualified_imports": "list[QualifiedImport]", "alias_name": "str"}
    safety = False

    def ensures_first_match(qualified_imports, alias_name, result):
        for qi in qualified_imports:
            if alias_name == qi.alias or alias_name == qi.qualified_name.split(".")[-1]:
                return result == (qi.qualified_name.split(".")[-1], qi.qualified_name)
        return result == ("", "")


@contract(_G + "_get_module_id", props=["C10", "C18"])
class get_module_id:
    params = {"get_actual_id": "bool"}
    raises = ()
    modifies = []

    def ensures_id(self, get_actual_id, result):
        return result == (self.module_id if (get_actual_id or not self.currently_creating_reexport_data) else self.reexport_module_id)


@contract(_G + "_set_module_id", props=["C10", "C18", "C16"])
class set_module_id:
    params = {"module_id": "str"}
    raises = ()
    modifies = ["self.module_id", "self.reexport_module_id"]

    def ensures_set(self, module_id):
        return (self.reexport_module_id == module_id and self.module_id == old(self.module_id)) \
            if self.currently_creating_reexport_data else \
            (self.module_id == module_id)


# ---------------------------------------------------------------------------------------------- docstring cache (C13)
@opaque(ann="griffe.dataclasses.Object | None")
def NODE(parser, qname):
    """The griffe node a qualified name denotes (a function of the immutable griffe tree; assumed)."""
    return parser._get_griffe_node(qname)


def DOC(parser, qname):
    n = NODE(parser, qname)
    return n.docstring if n is not None else None


@contract(_D + "_get_griffe_node", props=["C13"], verify=False)
class get_griffe_node:
    params = {"qname": "str"}
    modifies = []

    def ensures_node(self, qname, result):
        return result == NODE(self, qname)


@contract(_D + "__get_cached_docstring", props=["C13"])
class cached_docstring:
    """One-entry cache: whatever was asked before, the answer for qname is the docstring of qname's node, and the
    cache stays consistent (entry name -> docstring of that name)."""
    params = {"qname": "str"}
    modifies = ["self._DocstringParser__cached_node", "self._DocstringParser__cached_docstring"]
    safety = False

    def requires(self, qname):
        return self._DocstringParser__cached_node is None \
            or self._DocstringParser__cached_docstring == DOC(self, self._DocstringParser__cached_node)

    def ensures_answer(self, qname, result):
        return result == DOC(self, qname)

    def ensures_cache_consistent(self, qname):
        return self._DocstringParser__cached_node == qname and self._DocstringParser__cached_docstring == DOC(self, qname)


# ---------------------------------------------------------------------------------------------- class lookup (C17)
@contract(_G + "_get_class_in_package", props=["C17", "C01"])
class get_class_in_package:
    """Lookup of a (private) superclass: the class registered under exactly that id, else the first registered
    class whose id ends with the id or lies below the named package and has the same class name; LookupError
    exactly when there is none."""
    params = {"class_qname": "str"}
    modifies = []
    safety = False

    def raises_LookupError(self, class_qname):
        cid = class_qname.replace(".", "/")
        path = "/".join(cid.split("/")[:-1])
        name = cid.split("/")[-1]
        return cid not in self.api.classes and not any(
            k.endswith(cid) or (k.startswith(path + "/") and k.endswith("/" + name)) for k in self.api.classes)

    def ensures_lookup(self, class_qname, result):
        cid = class_qname.replace(".", "/")
        path = "/".join(cid.split("/")[:-1])
        name = cid.split("/")[-1]
        if cid in self.api.classes:
            return result is self.api.classes[cid]
        for k in self.api.classes:
            if k.endswith(cid) or (k.startswith(path + "/") and k.endswith("/" + name)):
                return result is self.api.classes[k]
        return False


# ---------------------------------------------------------------------------------------------- ids (C12)
@contract(_V + "_create_id_from_stack", props=["C12"])
class create_id_from_stack:
    """'<owner id>/<name>': module id of the stack bottom, then the names of the enclosing declarations (entries
    that are assignment lists do not contribute), then the new name, joined by '/'."""
    params = {"name": "str"}
    modifies = []
    safety = False

    def ensures_id(self, name, result):
        from safeds_stubgen.api_analyzer._api import Module
        segs = [(it.id if isinstance(it, Module) else it.name) for it in self._MyPyAstVisitor__declaration_stack
                if not isinstance(it, list)]
        return result == "/".join(segs + [name])

    def ensures_suffix(self, name, result):
        return result.endswith(name)


# ---------------------------------------------------------------------------------------------- publicity (C04)
@opaque(ann="bool | None")
def REEXP(visitor, name, qname, parent):
    """What the re-export table says about a declaration: True (re-exported under a public name) or None."""
    return visitor._check_publicity_in_reexports(name, qname, parent)


@contract(_V + "_check_publicity_in_reexports", props=["C04"], verify=False)
class check_publicity_in_reexports:
    """Assumed (names the verdict of the re-export table lookup). A deductive proof that a specific re-export is
    matched by module-qualified name was attempted (nested any() over the table against the nested loops with
    early returns): 26 of 32 obligations in 10 minutes, the rest undecided — left to the bounded publicity
    oracle of get_api."""
    modifies = []

    def ensures_table(self, name, qname, parent, result):
        return result == REEXP(self, name, qname, parent)


def IS_DUNDER(name):
    return name.startswith("__") and name.endswith("__")


@contract(_V + "_is_public", props=["C04", "C01"])
class is_public:
    """Publicity of a declaration (C04): unless the re-export table makes it public, a declaration is private iff
    its name has a leading underscore and is not a dunder name, or its owner / an enclosing module or package
    segment is private."""
    params = {"name": "str", "qname": "str"}
    modifies = []
    safety = False

    def requires(self, name, qname):
        from safeds_stubgen.api_analyzer._api import Class, Function, Module
        stack = self._MyPyAstVisitor__declaration_stack
        return self.mypy_file is not None and len(stack) > 0 and (
            isinstance(stack[-1], Module) or isinstance(stack[-1], Class)
            or (isinstance(stack[-1], Function) and stack[-1].name == "__init__"))

    def ensures_publicity(self, name, qname, result):
        from safeds_stubgen.api_analyzer._api import Class, Function, Module
        parent = self._MyPyAstVisitor__declaration_stack[-1]
        if not isinstance(parent, Function):
            r = REEXP(self, name, qname, parent)
            if r is not None:
                return result == r
        if name.startswith("_") and not IS_DUNDER(name):
            return result is False
        if isinstance(parent, Class) and (name == "__init__" or not name.startswith("_")):
            return result == parent.is_public
        return result == all(not seg.startswith("_") for seg in qname.split(".")[:-1])


# ---------------------------------------------------------------------------------------------- docstring annotations (C01, C14)
def DOC_TYPE_ORACLE(text):
    """Expected API type (as dictionary) of a docstring type text, for the plain constructs."""
    any_ = {"kind": "NamedType", "name": "Any", "qname": "typing.Any"}
    base = {"int": {"kind": "NamedType", "name": "int", "qname": "builtins.int"},
            "str": {"kind": "NamedType", "name": "str", "qname": "builtins.str"},
            "bool": {"kind": "NamedType", "name": "bool", "qname": "builtins.bool"},
            "float": {"kind": "NamedType", "name": "float", "qname": "builtins.float"}}
    t = text.strip()
    if t in base:
        return base[t]
    for head, kind in (("list[", "ListType"), ("set[", "SetType"), ("tuple[", "TupleType")):
        if t.startswith(head) and t.endswith("]"):
            inner = [x.strip() for x in t[len(head):-1].split(",")]
            if all(x in base for x in inner):
                return {"kind": kind, "types": [base[x] for x in inner]}
    for head in ("dict[",):     # an unimported `Mapping` stays an unresolved name: outside the oracle
        if t.startswith(head) and t.endswith("]"):
            inner = [x.strip() for x in t[len(head):-1].split(",")]
            if all(x in base for x in inner) and 1 <= len(inner) <= 2:
                return {"kind": "DictType", "key_type": base[inner[0]], "value_type": base[inner[1]] if len(inner) > 1 else any_}
    return None


@contract(_D + "_remove_default_from_griffe_annotation", props=["C01"])
class remove_default:
    params = {"self": "DocstringParser", "annotation": "str"}
    raises = ()

    def ensures_text(self, annotation, result):
        return isinstance(result, str)


@contract(_D + "_griffe_annotation_to_api_type", props=["C01", "C14"])
class griffe_annotation:
    """Never raises (every index is guarded by a length test; every attribute read is on a class that has it)
    and yields an API type or None — for every griffe expression tree, by induction on the recursion (the
    recursive calls are used through this contract)."""
    params = {"self": "DocstringParser", "annotation": "griffe.Expr | str", "docstring": "griffe.Docstring"}
    raises = ()
    # `while isinstance(left_bin, ExprBinOp)`: the cursor stays an expression or a string, `types` stays a list
    loop_invariants = {1: {"shapes": {"left_bin": "griffe.Expr | str", "types": "list"}}}

    def ensures_typed(self, annotation, docstring, result):
        return result is None or isinstance(result, sds_types.AbstractType)

    @clause(mode="bounded")
    def ensures_mapping(self, annotation, docstring, result):
        want = DOC_TYPE_ORACLE(annotation) if isinstance(annotation, str) else None
        return want is None or (result is not None and result.to_dict() == want)


def _annotation_cases(seed, tier):
    import warnings
    warnings.simplefilter("ignore")
    from griffe import Docstring, Function, Module, Parser
    from safeds_stubgen.docstring_parsing._docstring_parser import DocstringParser
    texts = ["int", "str", "bool", "float", "list[int]", "list[int, str]", "set[str]", "tuple[int, str]", "tuple[int]",
             "dict[str, int]", "dict[str]", "Mapping[str, float]", "Mapping[str]", "dict", "list", "tuple", "set",
             "Optional[int]", "int | None", "int | str | None", "Callable[[int], str]", "Callable[[int]]", "Callable",
             "int, optional", "{'a', 'b'}", "array-like of shape (n,)", "None", "Any", "typing.Any", "list[list[int]]",
             "dict[str, list[int]]", "tuple[int, ...]", "int or str", "SomeClass", "pkg.mod.SomeClass", ""]
    for parser in (Parser.numpy, Parser.google, Parser.sphinx):
        p = DocstringParser.__new__(DocstringParser)
        p.parser = parser
        for t in texts:
            m = Module("m")
            f = Function("f", parent=m)
            m.set_member("f", f)
            yield {"self": p, "kwargs": {"annotation": t, "docstring": Docstring("text", parent=f)}}


griffe_annotation.native_cases = staticmethod(_annotation_cases)


# ---------------------------------------------------------------------------------------------- attribute owner (C03)
def OWNER(stack):
    """The class an assignment belongs to: the innermost class among the enclosing declarations."""
    from safeds_stubgen.api_analyzer._api import Class
    classes = [it for it in stack if isinstance(it, Class)]
    return classes[-1]


@contract(_V + "_is_attribute_already_defined", props=["C03"])
class attribute_already_defined:
    """An attribute counts as already recorded exactly when the innermost enclosing class (the class the
    assignment belongs to, directly or through its __init__) has an attribute of that name."""
    params = {"value_name": "str"}
    modifies = []
    raises = ()

    def requires(self, value_name):
        from safeds_stubgen.api_analyzer._api import Class, Function
        stack = self._MyPyAstVisitor__declaration_stack
        return len(stack) >= 1 and (isinstance(stack[-1], Class) or (
            isinstance(stack[-1], Function) and len(stack) >= 2 and isinstance(stack[-2], Class)))

    def ensures_owner(self, value_name, result):
        return result == any(value_name == a.name for a in OWNER(self._MyPyAstVisitor__declaration_stack).attributes)


# ---------------------------------------------------------------------------------------------- per-module state reset (C08, C18)
@contract(_G + "_create_module_string", props=["C08", "C18"], verify=False)
class create_module_string:
    """Assumed contract of the module renderer: it must be entered in the clean per-module state (no type
    parameters, imports, pending markers or re-export target left over from what was rendered before)."""
    modifies = ["self.*"]

    def requires_clean_state(self, module):
        return self.class_generics == [] and self.module_imports == set() and self._current_todo_msgs == set() \
            and self.reexport_module_id == "" and self.module_id == module.id


@contract(_G + "__call__", props=["C08", "C18"])
class generator_call_resets:
    """Whatever state earlier modules left behind, the module renderer is entered in the clean per-module state
    (obligation: the precondition of _create_module_string at its call site, for an arbitrary generator state)."""
    params = {"module": "Module"}
    modifies = ["self.*"]
    safety = False

    def requires(self, module):
        return not self.currently_creating_reexport_data


# ---------------------------------------------------------------------------------------------- where a re-exported node is emitted (C10, C11)
def SEGS(module_id):
    """Number of path segments of a module id."""
    return len(module_id.split("/"))


@contract(_G + "_has_node_shorter_reexport", props=["C11", "C10"])
class has_node_shorter_reexport:
    """A declaration is handed over to a re-exporting package exactly when one of the packages that re-export it
    has fewer path segments than the module being rendered (the measure the import side uses as well)."""
    params = {"node": "Class | Function"}
    modifies = ["self.reexport_modules"]
    safety = False
    loop_invariants = {"for1": {
        "shapes": {"shortest_reexport_module_id": "str", "shortest_reexport_module": "Module | None"},
        "inv": "(shortest_reexport_module_id != self._get_module_id()) == "
               "any(SEGS(m.id) < SEGS(self._get_module_id()) for m in node.reexported_by[:_k])"
               " and (shortest_reexport_module is None) == (shortest_reexport_module_id == self._get_module_id())"
               " and SEGS(shortest_reexport_module_id) <= SEGS(self._get_module_id())"}}

    def ensures_decision(self, node, result):
        return result == any(SEGS(m.id) < SEGS(old(self._get_module_id())) for m in node.reexported_by)


# ---------------------------------------------------------------------------------------------- placeholder stubs of other libraries (C16, C10, C11)
def CALLS(log, name):
    """The records of the calls to `name` in a ghost call log, in call order."""
    return [r for r in log if r[0] == name]


def WRITES(log):
    return [r for r in log if r[0].endswith(".write")]


def PLACEHOLDER_CLASS(class_name, nc):
    conv = CONV(class_name, nc, True)
    ann = ('\n@PythonName("' + class_name + '")') if class_name != conv else ""
    return ann + "\nclass " + ESC(conv) + "\n"


def PLACEHOLDER_HEADER(python_module_path, nc):
    conv = CONV(python_module_path, nc, False)
    return (('@PythonModule("' + python_module_path + '")\n') if python_module_path != conv else "") + "package " + conv + "\n"


@contract(_GS + "_create_outside_package_class", props=["C16", "C10", "C11", "C02"])
class create_outside_package_class:
    """Placeholder stub of a class of another library. The external calls of the activation are kept in the ghost
    log EXT (qualified name, arguments, result), so the contract can state *where* and *how* the file is written:
    directory = out_path / module path, file = <last module segment>.sdsstub; the file is appended to exactly when it
    exists and this run has already created it, otherwise (re)written with the package header; the module path is
    registered as created."""
    params = {"class_path": "str", "out_path": "pathlib.Path", "naming_convention": "NamingConvention",
              "created_module_paths": "set[str]"}
    ghost = ["EXT"]
    modifies = ["created_module_paths"]
    safety = False

    def requires(class_path, out_path, naming_convention, created_module_paths):
        return len(class_path.split(".")) >= 2

    def ensures_calls(class_path, out_path, naming_convention, created_module_paths, result):
        return len(CALLS(EXT, "pathlib.Path.__truediv__")) == 2 and len(CALLS(EXT, "pathlib.Path.mkdir")) == 1 \
            and len(CALLS(EXT, "pathlib.Path.exists")) == 1 and len(CALLS(EXT, "pathlib.Path.open")) == 1 \
            and len(WRITES(EXT)) == 1

    def ensures_layout(class_path, out_path, naming_convention, created_module_paths, result):
        parts = class_path.split(".")
        d = CALLS(EXT, "pathlib.Path.__truediv__")
        return d[0][1] == out_path and d[0][2] == "/".join(parts[:-1]) and d[1][2] == parts[-2] + ".sdsstub" \
            and CALLS(EXT, "pathlib.Path.open")[0][1] == CALLS(EXT, "pathlib.Path.exists")[0][1]

    def ensures_rewrite_unless_created_in_this_run(class_path, out_path, naming_convention, created_module_paths, result):
        module_path = "/".join(class_path.split(".")[:-1])
        append = CALLS(EXT, "pathlib.Path.exists")[0][2] is True and module_path in old(created_module_paths)
        return CALLS(EXT, "pathlib.Path.open")[0][2] == ("a" if append else "w")

    def ensures_text(class_path, out_path, naming_convention, created_module_paths, result):
        parts = class_path.split(".")
        cls_text = PLACEHOLDER_CLASS(parts[-1], naming_convention)
        mode = CALLS(EXT, "pathlib.Path.open")[0][2]
        return WRITES(EXT)[0][2] == (cls_text if mode == "a" else PLACEHOLDER_HEADER(".".join(parts[:-1]), naming_convention) + cls_text)

    def ensures_registered(class_path, out_path, naming_convention, created_module_paths, result):
        module_path = "/".join(class_path.split(".")[:-1])
        return result == old(created_module_paths) | {module_path}


# ---------------------------------------------------------------------------------------------- the run: option wiring and output location (C10, C15)
_CLI = "safeds_stubgen.api_analyzer.cli._cli:"


_GA = "safeds_stubgen.api_analyzer._get_api:"
_PM = "safeds_stubgen.api_analyzer._package_metadata:"


@contract(_GA + "_get_nearest_init_dirs", props=["C15"], verify=False)
class nearest_init_dirs_assumed:
    modifies = []


@contract(_GA + "_get_mypy_build", props=["C15"], verify=False)
class mypy_build_assumed:
    modifies = []


def PKG_DIR(path):
    return path.split("__init__.py")[0][:-1]


@contract(_GA + "_get_mypy_asts", props=["C15", "C08"])
class get_mypy_asts:
    """Which of the syntax trees mypy built are analysed: the __init__ trees of registered package directories first,
    then the trees of the files handed to mypy — nothing else mypy happened to load while following imports."""
    params = {"build_result": "mypy_build.BuildResult", "files": "list[str]", "package_paths": "list[str]"}
    returns = "list[mypy_nodes.MypyFile]"
    modifies = []
    safety = False

    def raises_ValueError(build_result, files, package_paths):
        return any(build_result.graph[k].tree is None for k in build_result.graph)

    @clause(mode="prove")      # callers do not need it; keeping it out of their hypotheses keeps their queries small
    def ensures_selection(build_result, files, package_paths, result):
        trees = [build_result.graph[k].tree for k in build_result.graph]
        return result == [t for t in trees if t.path.endswith("__init__.py") and PKG_DIR(t.path) in package_paths] \
            + [t for t in trees if not t.path.endswith("__init__.py") and t.path in files]


@contract(_GA + "_get_aliases", props=["C15"], verify=False)
class aliases_assumed:
    modifies = []


@contract(_PM + "distribution", props=["C15"], verify=False)
class distribution_assumed:
    modifies = []


@contract(_PM + "distribution_version", props=["C15"], verify=False)
class distribution_version_assumed:
    modifies = []


_DP = "safeds_stubgen.docstring_parsing._docstring_parser:"


@contract(_DP + "DocstringParser.__init__", props=["C13"], verify=False)
class docstring_parser_init_assumed:
    """Assumed (frame only): the constructor loads the package with griffe (a `while True` / `try` retry loop around an
    external call, outside the verified subset). Its arguments are observed through the call log of its one caller."""
    modifies = []


@contract("safeds_stubgen.docstring_parsing._create_docstring_parser:create_docstring_parser", props=["C13", "C14", "C15"])
class create_docstring_parser_table:
    """The docstring style option selects the griffe parser (C13/C14: the three structured styles are read by the
    parser of that style, on the package directory handed in; anything else by the plain-text parser). Exactly one
    parser object is constructed per call and it is the result."""
    params = {"style": "DocstringStyle", "package_path": "pathlib.Path"}
    ghost = ["EXT"]
    log_calls = ["DocstringParser.__init__"]
    modifies = []
    safety = False

    def ensures_table(style, package_path, result):
        from griffe import Parser
        from safeds_stubgen.docstring_parsing._plaintext_docstring_parser import PlaintextDocstringParser
        d = CALLS(EXT, "DocstringParser.__init__")
        structured = style == DocstringStyle.GOOGLE or style == DocstringStyle.NUMPYDOC or style == DocstringStyle.REST
        return (len(d) == 1 and isinstance(result, DocstringParser) and d[0][1] == result and d[0][3] == package_path
                and d[0][2] == (Parser.google if style == DocstringStyle.GOOGLE else
                                (Parser.numpy if style == DocstringStyle.NUMPYDOC else Parser.sphinx))) if structured \
            else (len(d) == 0 and isinstance(result, PlaintextDocstringParser))


@contract("safeds_stubgen.api_analyzer._ast_walker:ASTWalker.walk", props=["C15"], verify=False)
class ast_walker_walk_assumed:
    log = False
    modifies = []


def SKIPPED(p, is_test_run):
    """C15: without the flag, a file below a directory named test, tests or docs is not analysed."""
    return (not is_test_run) and ("test" in p.parts or "tests" in p.parts or "docs" in p.parts)


def IS_INIT(p):
    return p.parts[-1] == "__init__.py"


@contract(_GA + "get_api", props=["C15"])
class get_api_filter:
    """C15 at the function that implements it: the files handed to mypy are exactly the globbed files that are not
    skipped (without the flag: no path segment named test, tests or docs) and are not __init__ files; the package
    directories are the parents of the non-skipped __init__ files; the search starts at the single nearest package
    directory, else at the given root. The rest of the analysis (mypy build, AST walk) is assumed / bounded."""
    returns = "API"
    log_calls = ["_get_mypy_asts", "create_docstring_parser"]
    params = {"root": "pathlib.Path", "docstring_style": "DocstringStyle", "is_test_run": "bool",
              "type_source_preference": "TypeSourcePreference", "type_source_warning": "TypeSourceWarning"}
    ghost = ["EXT"]
    modifies = []
    safety = False

    def ensures_search_root(root, docstring_style, is_test_run, type_source_preference, type_source_warning, result):
        inits = shaped(CALLS(EXT, "_get_nearest_init_dirs")[0][2], "list[pathlib.Path]")
        g = CALLS(EXT, "pathlib.Path.glob")
        return len(g) == 1 and g[0][1] == (inits[0] if len(inits) == 1 else root) and g[0][2] == "./**/*.py"

    def ensures_files_handed_to_mypy(root, docstring_style, is_test_run, type_source_preference, type_source_warning, result):
        files = shaped(CALLS(EXT, "pathlib.Path.glob")[0][3], "list[pathlib.Path]")
        b = CALLS(EXT, "_get_mypy_build")[0]
        a = CALLS(EXT, "_get_mypy_asts")[0]
        return b[1] == [str(p) for p in files if not SKIPPED(p, is_test_run) and not IS_INIT(p)] \
            and a[1] == b[2] and a[2] == b[1] \
            and a[3] == [str(p.parent) for p in files if not SKIPPED(p, is_test_run) and IS_INIT(p)]

    @clause(props=["C13", "C14"])
    def ensures_style_reaches_the_docstring_parser(root, docstring_style, is_test_run, type_source_preference,
                                                   type_source_warning, result):
        c = CALLS(EXT, "create_docstring_parser")
        return len(c) == 1 and c[0][1] == docstring_style and c[0][2] == CALLS(EXT, "pathlib.Path.glob")[0][1]


@contract("safeds_stubgen.api_analyzer._api:API.to_json_file", props=["C10", "C12"])
class to_json_file:
    """The inventory file: parent directories are created, the file is opened for (re)writing and receives exactly
    the dictionary `to_dict` returned (the contents of that dictionary are the bounded contract of API.to_dict)."""
    params = {"path": "pathlib.Path"}
    ghost = ["EXT"]
    modifies = []
    safety = False

    def ensures_written(self, path, result):
        o = CALLS(EXT, "pathlib.Path.open")
        d = CALLS(EXT, "API.to_dict")
        j = CALLS(EXT, "json.dump")
        return len(o) == 1 and len(d) == 1 and len(j) == 1 and o[0][1] == path and o[0][2] == "w" \
            and d[0][1] == self and j[0][1] == d[0][2] and j[0][2] == o[0][4] \
            and CALLS(EXT, "pathlib.Path.mkdir")[0][1] == path.parent and CALLS(EXT, "pathlib.Path.touch")[0][1] == path


@contract(_GS + "generate_stub_data", props=["C10"], verify=False)
class generate_stub_data_assumed:
    modifies = ["stubs_generator.*"]


@contract(_GS + "create_stub_files", props=["C10"], verify=False)
class create_stub_files_assumed:
    modifies = ["stubs_generator.*"]


@contract(_CLI + "_run_stub_generator", props=["C10", "C15", "C14"])
class run_stub_generator_wiring:
    """The options reach the analyser unchanged (C15: the test-run flag; C14: preference and warning setting), the
    inventory is written to <out>/<source directory name>__api.json and every later step works on the requested
    output directory (C10). Calls are observed through the ghost call log EXT."""
    params = {"src_dir_path": "pathlib.Path", "out_dir_path": "pathlib.Path", "docstring_style": "DocstringStyle",
              "is_test_run": "bool", "convert_identifiers": "bool", "type_source_preference": "TypeSourcePreference",
              "type_source_warning": "TypeSourceWarning"}
    ghost = ["EXT"]
    log_calls = ["API.to_json_file", "get_api"]
    modifies = []
    safety = False

    def ensures_calls(src_dir_path, out_dir_path, docstring_style, is_test_run, convert_identifiers,
                      type_source_preference, type_source_warning, result):
        return len(CALLS(EXT, "get_api")) == 1 and len(CALLS(EXT, "pathlib.PurePath.joinpath")) == 1 \
            and len(CALLS(EXT, "API.to_json_file")) == 1 and len(CALLS(EXT, "generate_stub_data")) == 1 \
            and len(CALLS(EXT, "create_stub_files")) == 1

    @clause(props=["C15", "C14"])
    def ensures_options_reach_the_analyser(src_dir_path, out_dir_path, docstring_style, is_test_run, convert_identifiers,
                                           type_source_preference, type_source_warning, result):
        g = CALLS(EXT, "get_api")[0]
        return g[1] == src_dir_path and g[2] == docstring_style and g[3] == is_test_run \
            and g[4] == type_source_preference and g[5] == type_source_warning

    @clause(props=["C10"])
    def ensures_inventory_file(src_dir_path, out_dir_path, docstring_style, is_test_run, convert_identifiers,
                               type_source_preference, type_source_warning, result):
        g = CALLS(EXT, "get_api")[0]
        j = CALLS(EXT, "pathlib.PurePath.joinpath")[0]
        w = CALLS(EXT, "API.to_json_file")[0]
        return j[1] == out_dir_path and j[2] == src_dir_path.stem + "__api.json" and w[1] == g[6] and w[2] == j[3]

    @clause(props=["C10", "C09"])
    def ensures_generation_on_the_requested_directory(src_dir_path, out_dir_path, docstring_style, is_test_run,
                                                      convert_identifiers, type_source_preference, type_source_warning, result):
        g = CALLS(EXT, "get_api")[0]
        d = CALLS(EXT, "generate_stub_data")[0]
        c = CALLS(EXT, "create_stub_files")[0]
        gen = d[1]
        return d[2] == out_dir_path and c[3] == out_dir_path and c[1] == gen and c[2] == d[3] \
            and gen.api == g[6] \
            and gen.naming_convention == (NamingConvention.SAFE_DS if convert_identifiers else NamingConvention.PYTHON)


@contract(_CLI + "_get_args", props=["C15"], verify=False)
class get_args_assumed:
    """Assumed: the parsed command line (argparse) as a namespace; the option table itself is exercised by the
    bounded CLI cases only through `_run_stub_generator`."""
    modifies = []


@contract(_CLI + "cli", props=["C15", "C14", "C10"])
class cli_wiring:
    """The command-line entry hands the parsed options to the run unchanged: -tr reaches is_test_run (C15), -nc the
    naming switch, the resolved -s / -o paths the source and output directory (C10), preference and warning setting
    their parameters (C14)."""
    ghost = ["EXT"]
    log_calls = ["_run_stub_generator"]
    modifies = []
    safety = False

    def ensures_options_handed_over(result):
        a = CALLS(EXT, "_get_args")[0][1]
        r = CALLS(EXT, "_run_stub_generator")[0]
        res = CALLS(EXT, "pathlib.Path.resolve")
        return len(CALLS(EXT, "_run_stub_generator")) == 1 and len(res) == 2 \
            and res[0][1] == a.src and r[1] == res[0][2] and res[1][1] == a.out and r[2] == res[1][2] \
            and r[3] == a.docstyle and r[4] == a.testrun and r[5] == a.naming_convert \
            and r[6] == a.type_source_preference and r[7] == a.show_type_source_warning
