"""Contracts for safeds_stubgen/stubs_generator/_stub_string_generator.py.

Spec functions (upper case) are the oracle: they are written from the property statements (which constructs
get which marker, which name gets an annotation, how a production of the stub grammar is assembled) and are
executable natively. Each real method is verified against `result == SPEC(...)` plus its effect on the
generator's scratch state.
"""
from pyvc.api import clause, contract, deep_fresh, implies, ite, lemma, old, opaque
from safeds_stubgen.stubs_generator._helper import NamingConvention
from specs.helper import CONV, ESC

_G = "safeds_stubgen.stubs_generator._stub_string_generator:StubsStringGenerator."

# ------------------------------------------------------------------------------------------------ TODO markers (C20)
TODO_TEXT = {
    "no tuple support": "Safe-DS does not support tuple types.",
    "no set support": "Safe-DS does not support set types.",
    "List": "List type has to many type arguments.",
    "Set": "Set type has to many type arguments.",
    "OPT_POS_ONLY": "Safe-DS does not support optional but position only parameter assignments.",
    "REQ_NAME_ONLY": "Safe-DS does not support required but name only parameter assignments.",
    "multiple_inheritance": "Safe-DS does not support multiple inheritance.",
    "variadic": "Safe-DS does not support variadic parameters.",
    "class_method": "Safe-DS does not support class methods.",
    "param without type": "Some parameter have no type information.",
    "attr without type": "Attribute has no type information.",
    "result without type": "Result type information missing.",
    "internal class as type": "An internal class must not be used as a type in a public class.",
    "unknown": "Unknown type - Type could not be parsed.",
    "unknown value": "Unknown value - Value could not be parsed.",
}
TODO_KEYS = {"no tuple support", "no set support", "List", "Set", "OPT_POS_ONLY", "REQ_NAME_ONLY",
             "multiple_inheritance", "variadic", "class_method", "param without type", "attr without type",
             "result without type", "internal class as type", "unknown", "unknown value"}


def TODO_BLOCK(pending, indent):
    """The marker lines in front of a declaration: one line per pending marker, sorted, each at `indent`."""
    if not pending:
        return ""
    lines = sorted(["// TODO " + TODO_TEXT[m] for m in pending])
    return indent + ("\n" + indent).join(lines) + "\n"


@contract(_G + "_create_todo_msg", props=["C20", "C08", "C01"])
class create_todo_msg:
    params = {"indentations": "str"}
    raises = ()
    modifies = ["self._current_todo_msgs"]

    def requires(self, indentations):
        return self._current_todo_msgs.issubset(TODO_KEYS)

    def ensures_block(self, indentations, result):
        return result == TODO_BLOCK(old(self._current_todo_msgs), indentations)

    def ensures_flushed(self, indentations):
        return self._current_todo_msgs == set()


# ------------------------------------------------------------------------------------------------ documentation comments (C13, C02)
@opaque(returns="str")
def DESC(description, indent):
    """Description text, line for line: first line as is, every further line behind '<indent> * ' (or
    '<indent> *' for an empty line), newline-terminated; surrounding blank lines dropped."""
    lines = description.rstrip("\n").lstrip("\n").split("\n")
    return lines[0] + "".join((("\n" + indent + " * " + ln) if ln else ("\n" + indent + " *")) for ln in lines[1:]) + "\n"


@contract(_G + "_create_docstring_description_part", props=["C13", "C02", "C01"])
class desc_part:
    params = {"description": "str", "indentations": "str"}
    raises = ()
    unfold = ["DESC"]

    def ensures_line_for_line(description, indentations, result):
        return result == DESC(description, indentations)


def DOC_DESCRIPTION(description, indent):
    return (("") if (description == "") else (indent + "/**\n" + indent + " * " + DESC(description, indent) + indent + " */\n"))


@contract(_G + "_create_sds_docstring_description", props=["C13", "C02", "C01"])
class sds_docstring_description:
    params = {"description": "str", "indentations": "str"}
    raises = ()
    modifies = []

    def ensures_comment(self, description, indentations, result):
        return result == DOC_DESCRIPTION(description, indentations)


# ------------------------------------------------------------------------------------------------ types (C05, C20, C11, C02)
NONE_NAME = "Nothing?"


def LIT(v):
    """One literal value inside literal<...>."""
    if isinstance(v, str):
        return '"' + v + '"'
    if isinstance(v, bool):
        return (("true") if (v) else ("false"))
    if v is None:
        return "null"
    return str(v)


def IS_NONE_TD(t):
    return t["kind"] == "NamedType" and t["qname"] == "builtins.None"


def IS_NAMEDLIKE(t):
    k = t["kind"]
    return (k == "NamedType" or k == "TupleType" or k == "ListType" or k == "SetType" or k == "DictType") \
        and not IS_NONE_TD(t)


@opaque(returns="str")
def R(nc, td):
    """Safe-DS rendering of a type dictionary under naming convention nc (the documented structural mapping)."""
    if td is None:
        return ""
    kind = td["kind"]
    if kind == "NamedType":
        name = td["name"]
        return (("Int") if (name == "int") else (("String") if (name == "str") else (("Boolean") if (name == "bool") else (("Float") if (name == "float") else ((NONE_NAME) if (name == "None") else (name))))))
    if kind == "FinalType":
        return R(nc, td["type"])
    if kind == "CallableType":
        params = [CONV("param_" + str(i + 1), nc, False) + ": " + R(nc, t) for i, t in enumerate(td["parameter_types"])]
        rt = td["return_type"]
        if rt["kind"] == "TupleType":
            rets = [CONV("result_" + str(i + 1), nc, False) + ": " + R(nc, t) for i, t in enumerate(rt["types"])]
            return "(" + ", ".join(params) + ") -> (" + ", ".join(rets) + ")"
        if rt["kind"] == "NamedType" and rt["name"] == "None":
            return "(" + ", ".join(params) + ") -> ()"
        return "(" + ", ".join(params) + ") -> " + CONV("result_1", nc, False) + ": " + R(nc, rt)
    if kind == "SetType" or kind == "ListType" or kind == "NamedSequenceType":
        types = [R(nc, t) for t in td["types"]]
        name = ((td["name"]) if (kind == "NamedSequenceType") else (kind[0:-4]))
        return ((name + "<" + ", ".join(types) + ">") if (len(types) > 0) else (name + "<Any>"))
    if kind == "UnknownType":
        return "unknown"
    if kind == "UnionType":
        return RU(nc, td)
    if kind == "TupleType":
        return "Tuple<" + ", ".join([R(nc, t) for t in td["types"]]) + ">"
    if kind == "DictType":
        return "Map<" + R(nc, td["key_type"]) + ", " + R(nc, td["value_type"]) + ">"
    if kind == "LiteralType":
        return "literal<" + ", ".join([LIT(v) for v in td["literals"]]) + ">"
    if kind == "TypeVarType":
        return ESC(CONV(td["name"], nc, False))
    return ""


def WITH_LITERALS(td, literals):
    """The literal type dictionary td with its literals replaced."""
    td = dict(td)
    td["literals"] = literals
    return td


def RU(nc, td):
    """Union rendering: literal members merged into one literal<...>; {literal, None} -> literal<..., null>;
    duplicates removed; one distinct member -> that member; {T, None} with T a named-like type -> T?;
    otherwise union<sorted distinct members, Nothing? last>."""
    members = td["types"]
    lits = [t for t in members if t["kind"] == "LiteralType"]
    others = [t for t in members if t["kind"] != "LiteralType"]
    has_named = any(IS_NAMEDLIKE(t) for t in members)
    merged = ((others + [{"kind": "LiteralType", "literals": [v for t in lits for v in t["literals"]]}]) if (len(lits) >= 2) else (members))
    if len(merged) == 2 and len(lits) >= 1 and (IS_NONE_TD(merged[0]) or IS_NONE_TD(merged[1])):
        lit = ((merged[0]) if (merged[0]["kind"] == "LiteralType") else (merged[1]))
        return R(nc, WITH_LITERALS(lit, lit["literals"] + [None]))
    rendered = sorted(list({R(nc, t) for t in merged}))
    if len(rendered) == 0:
        return ""
    if len(rendered) == 2 and NONE_NAME in rendered and has_named:
        return ((rendered[1]) if (rendered[0] == NONE_NAME) else (rendered[0])) + "?"
    if len(rendered) == 1:
        return rendered[0]
    if NONE_NAME in rendered and rendered[-1] != NONE_NAME:
        i = rendered.index(NONE_NAME)
        rendered = rendered[:i] + rendered[i + 1:] + [NONE_NAME]
    return "union<" + ", ".join(rendered) + ">"


FREE_MARKERS = {"internal class as type"}


def TF_POST(td, r):
    # consequences of the definition below that are used where TF is applied to a member type without unfolding it:
    # only keys of the marker table are raised; named and literal types raise nothing
    return r.issubset(TODO_KEYS) and implies(
        td is not None and (td["kind"] == "NamedType" or td["kind"] == "LiteralType"), r == set())


@opaque(ann="set", post="TF_POST")
def TF(td):
    """TODO markers a type raises (C20): tuple types, set types, list/set with several type arguments, unknown."""
    if td is None:
        return set()
    kind = td["kind"]
    if kind == "FinalType":
        return TF(td["type"])
    if kind == "CallableType":
        return TFS(td["parameter_types"]) | ((TFS(td["return_type"]["types"])) if (td["return_type"]["kind"] == "TupleType") else ((set()) if (td["return_type"]["kind"] == "NamedType" and td["return_type"]["name"] == "None") else (TF(td["return_type"]))))
    if kind == "SetType":
        return TFS(td["types"]) | {"no set support"} | (({"Set"}) if (len(td["types"]) >= 2) else (set()))
    if kind == "ListType":
        return TFS(td["types"]) | (({"List"}) if (len(td["types"]) >= 2) else (set()))
    if kind == "NamedSequenceType":
        return TFS(td["types"])
    if kind == "UnknownType":
        return {"unknown"}
    if kind == "TupleType":
        return {"no tuple support"} | TFS(td["types"])
    if kind == "UnionType":
        return TFS(td["types"])
    if kind == "DictType":
        return TF(td["key_type"]) | TF(td["value_type"])
    return set()


def TFS(tds):
    out = set()
    for t in tds:
        out = out | TF(t)
    return out


@opaque(ann="set")
def IMP1(gen, qname):
    """Import requests one class reference adds to module_imports (body: see IMP1_DEF; C11)."""
    return set()


@opaque(ann="set")
def OUT1(gen, qname):
    return set()


@opaque(ann="set")
def IMPS(gen, td):
    """Imports requested while rendering td: one request per non-builtin class name that is written."""
    if td is None:
        return set()
    kind = td["kind"]
    if kind == "NamedType":
        name = td["name"]
        return ((set()) if (name == "int" or name == "str" or name == "bool" or name == "float" or name == "None") else (IMP1(gen, td["qname"])))
    if kind == "FinalType":
        return IMPS(gen, td["type"])
    if kind == "CallableType":
        rt = td["return_type"]
        return IMPSS(gen, td["parameter_types"]) | ((IMPSS(gen, rt["types"])) if (rt["kind"] == "TupleType") else ((set()) if (rt["kind"] == "NamedType" and rt["name"] == "None") else (IMPS(gen, rt))))
    if kind == "SetType" or kind == "ListType" or kind == "NamedSequenceType" or kind == "TupleType":
        return IMPSS(gen, td["types"])
    if kind == "UnionType":
        return IMPSS(gen, td["types"])
    if kind == "DictType":
        return IMPS(gen, td["key_type"]) | IMPS(gen, td["value_type"])
    return set()


def IMPSS(gen, tds):
    out = set()
    for t in tds:
        out = out | IMPS(gen, t)
    return out


@opaque(ann="set")
def OUTS(gen, td):
    return set()


def ICA_POST(gen, td, r):
    return r.issubset(FREE_MARKERS)


@opaque(ann="set", post="ICA_POST")
def ICA_ND(gen, td):
    """The marker 'internal class as type' is outside the property's list of flagged constructs; whether it is
    raised depends on the import state. Call sites see it as this unspecified subset of FREE_MARKERS."""
    return set()


@contract("safeds_stubgen.stubs_generator._helper:_get_shortest_public_reexport", props=["C11"], verify=False)
class shortest_public_reexport:
    """Assumed shape of the re-export search (its nested set-building loops are outside the verified subset; its
    determinism is covered by the hash-seed clause of the CLI contract)."""
    params = {"reexport_map": "dict", "name": "str", "qname": "str", "is_module": "bool"}
    modifies = []

    def ensures_shape(reexport_map, name, qname, is_module, result):
        return isinstance(result, tuple) and len(result) == 2


@contract(_G + "_is_path_connected_to_class", props=["C11"])
class is_path_connected_to_class:
    """A Boolean function without effects on the generator; a class path that ends with the path is connected.
    (`str.lstrip` with a symbolic character set: only 'the result is a suffix of the receiver' is used.)"""
    params = {"path": "str", "class_path": "str"}
    modifies = []
    raises = ()

    def ensures_bool(self, path, class_path, result):
        return isinstance(result, bool)

    def ensures_suffix_is_connected(self, path, class_path, result):
        return implies(class_path.endswith(path), result == True)  # noqa: E712


@contract(_G + "_add_to_imports", props=["C11", "C01"])
class add_to_imports:
    """Import bookkeeping for one class reference (C11): only the two bookkeeping sets change and they only grow;
    builtins and typing.Any never lead to an import; a reference recorded as a class of another library is also
    imported (unless it names the module being rendered); an empty source is rejected."""
    params = {"import_qname": "str"}
    modifies = ["self.module_imports", "self.classes_outside_package"]
    safety = False

    def raises_ValueError(self, import_qname):
        return import_qname == ""

    @clause(mode="use")
    def ensures_imports(self, import_qname):
        return self.module_imports == old(self.module_imports) | IMP1(self, import_qname)

    @clause(mode="use")
    def ensures_outside(self, import_qname):
        return self.classes_outside_package == old(self.classes_outside_package) | OUT1(self, import_qname)

    def ensures_only_grow(self, import_qname):
        return old(self.module_imports) <= self.module_imports and old(self.classes_outside_package) <= self.classes_outside_package

    def ensures_builtins_never_imported(self, import_qname):
        parts = import_qname.split(".")
        return implies((parts[0] == "builtins" and len(parts) == 2) or import_qname == "typing.Any",
                       self.module_imports == old(self.module_imports)
                       and self.classes_outside_package == old(self.classes_outside_package))

    def ensures_outside_classes_are_imported(self, import_qname):
        new = self.classes_outside_package - old(self.classes_outside_package)
        return all(q in self.module_imports or q.replace(".", "/") == self._get_module_id() for q in new)


@contract(_G + "_create_type_string", props=["C05", "C20", "C02"])
class create_type_string:
    params = {"type_data": "TypeDict | None"}
    modifies = ["self._current_todo_msgs", "self.module_imports", "self.classes_outside_package", "type_data"]
    safety = False
    unfold = ["R", "TF"]

    def requires_quick(self, type_data):
        # every kind except unions is proved. The union branch (literal merging, de-duplication, sorting, nullable
        # shorthand) is enumerated natively in both tiers (bounded); its proof is attempted only with PYVC_FULL=1 in
        # the thorough tier: 1528 of 1532 obligations discharge, the general sort/None-reordering paths (outcomes
        # 48 and 51) stay undecided within the budgets
        return type_data is None or type_data["kind"] != "UnionType"

    @clause(props=["C05", "C02"])
    def ensures_render(self, type_data, result):
        return result == R(self.naming_convention, type_data)

    @clause(props=["C20"], mode="prove")
    def ensures_markers(self, type_data):
        return self._current_todo_msgs - FREE_MARKERS == (old(self._current_todo_msgs) | TF(type_data)) - FREE_MARKERS

    @clause(props=["C20"], mode="use")
    def ensures_markers_use(self, type_data):
        return self._current_todo_msgs == old(self._current_todo_msgs) | TF(type_data) | ICA_ND(self, type_data)

    @clause(props=["C11"], mode="use")
    def ensures_imports_use(self, type_data):
        return self.module_imports == old(self.module_imports) | IMPS(self, type_data)

    @clause(props=["C11"], mode="use")
    def ensures_outside_use(self, type_data):
        return self.classes_outside_package == old(self.classes_outside_package) | OUTS(self, type_data)


# ------------------------------------------------------------------------------------------------ native case generators
def _mk_gen(convert, module_id="pkg/mod"):
    """A real generator object on an (almost) empty API, as __call__ sets it up for one module."""
    from safeds_stubgen.api_analyzer import API
    from safeds_stubgen.stubs_generator import StubsStringGenerator
    g = StubsStringGenerator(API("dist", "pkg", "1"), convert)
    g.module_id = module_id
    g.reexport_module_id = ""
    g._current_todo_msgs = set()
    return g


def _type_terms(depth):
    """Type values over a small alphabet, all constructors, up to the given depth."""
    from safeds_stubgen.api_analyzer import _types as T
    leaves = [T.NamedType("int", "builtins.int"), T.NamedType("str", "builtins.str"), T.NamedType("None", "builtins.None"),
              T.NamedType("A", "pkg.mod.A"), T.NamedType("my_cls", "other.m.my_cls"), T.LiteralType(["a"]), T.LiteralType([1, True]),
              T.TypeVarType("my_t"), T.UnknownType()]
    if depth == 0:
        return leaves
    sub = _type_terms(depth - 1)
    small = sub[:6]
    out = list(leaves)
    for a in small:
        out += [T.ListType([a]), T.SetType([a]), T.TupleType([a]), T.FinalType(a), T.NamedSequenceType("Gen", "pkg.mod.Gen", [a]),
                T.CallableType([a], a), T.TypeVarType("T", a)]
        for b in small:
            out += [T.UnionType([a, b]), T.DictType(a, b), T.ListType([a, b]), T.CallableType([a, b], T.TupleType([a, b]))]
    for a in small[:5]:
        for b in small[:5]:
            for c in small[:6]:
                out.append(T.UnionType([a, b, c]))
    out += [T.ListType([]), T.SetType([]), T.TupleType([]), T.UnionType([]), T.CallableType([], T.NamedType("None", "builtins.None"))]
    return out


def _type_string_cases(seed, tier):
    for conv in (False, True):
        for t in _type_terms(1 if tier == "quick" else 2):
            yield {"self": _mk_gen(conv), "kwargs": {"type_data": t.to_dict()}}
        yield {"self": _mk_gen(conv), "kwargs": {"type_data": None}}


create_type_string.native_cases = staticmethod(_type_string_cases)


# ------------------------------------------------------------------------------------------------ parameters (C06, C20, C09, C02)
from safeds_stubgen.api_analyzer._api import ParameterAssignment, UnknownValue  # noqa: E402
from specs.types import TD  # noqa: E402

INDENT = "    "


def ANNOT(name, nc, is_class):
    """@PythonName annotation text, present exactly when the converted name differs (C09)."""
    return ('@PythonName("' + name + '")') if CONV(name, nc, is_class) != name else ""


def DEFAULT_TEXT(p):
    """Stub text of a parameter default: true/false/null/unknown, numbers as written, strings as stored
    (already quoted by the analyser); the empty *args / **kwargs placeholders map to [] and {}."""
    v = p.default_value
    if isinstance(v, str):
        return "[]" if (p.assigned_by == ParameterAssignment.POSITIONAL_VARARG and v == "()") else v
    if isinstance(v, bool):
        return "true" if v else "false"
    if v is None:
        return "null"
    if isinstance(v, UnknownValue):
        return "unknown"
    return str(v)


def WITH_KIND(td, kind):
    td["kind"] = kind
    return td


def PARAM_TD(p):
    """Type dictionary a parameter is rendered from: *args tuples are presented as lists."""
    td = TD(p.type)
    return WITH_KIND(td, "ListType") if (p.assigned_by == ParameterAssignment.POSITIONAL_VARARG and td["kind"] == "TupleType") else td


def PARAM_TYPE_TEXT(nc, p):
    if p.type is not None:
        ts = R(nc, PARAM_TD(p))
        return (": " + ts) if ts else ""
    if p.assigned_by == ParameterAssignment.POSITIONAL_VARARG:
        return ": List<Any>"
    if p.assigned_by == ParameterAssignment.NAMED_VARARG:
        return ": Map<String, Any>"
    return ""


def PARAM(nc, p):
    ann = ANNOT(p.name, nc, False)
    value = (" = " + DEFAULT_TEXT(p)) if (p.type is not None and p.is_optional) else ""
    return (ann + " " if ann else "") + ESC(CONV(p.name, nc, False)) + PARAM_TYPE_TEXT(nc, p) + value


def PARAM_MARKERS(p):
    """TODO markers one parameter raises (C20)."""
    out = set()
    if p.type is None:
        out = out | {"param without type"}
    else:
        out = out | TF(PARAM_TD(p))
        if p.is_optional and isinstance(p.default_value, UnknownValue):
            out = out | {"unknown value"}
    if p.assigned_by == ParameterAssignment.POSITION_ONLY and p.is_optional:
        out = out | {"OPT_POS_ONLY"}
    if p.assigned_by == ParameterAssignment.NAME_ONLY and not p.is_optional:
        out = out | {"REQ_NAME_ONLY"}
    if p.assigned_by == ParameterAssignment.POSITIONAL_VARARG or p.assigned_by == ParameterAssignment.NAMED_VARARG:
        out = out | {"variadic"}
    return out


def SHOWN(parameters, is_instance_method):
    """The Python parameter list without the implicit receiver."""
    if is_instance_method:
        return parameters[1:]
    return parameters


@opaque(returns="str")
def PARAMS(nc, parameters, indent, is_instance_method):
    texts = [PARAM(nc, p) for p in SHOWN(parameters, is_instance_method)]
    inner = indent + INDENT
    return ("\n" + inner + (",\n" + inner).join(texts) + "\n" + indent) if texts else ""


def MARKERS_OF(ps):
    out = set()
    for p in ps:
        out = out | PARAM_MARKERS(p)
    return out


@opaque(ann="set")
def PARAMS_MARKERS(parameters, is_instance_method):
    return MARKERS_OF(SHOWN(parameters, is_instance_method))


@opaque(ann="set")
def PARAMS_IMPORTS(gen, parameters, is_instance_method):
    out = set()
    for p in SHOWN(parameters, is_instance_method):
        out = out | (IMPS(gen, PARAM_TD(p)) if p.type is not None else set())
    return out


@opaque(ann="set")
def PARAMS_ICA(gen, parameters, is_instance_method):
    return set()


@contract(_G + "_create_parameter_string", props=["C06", "C20", "C09", "C02"])
class create_parameter_string:
    params = {"parameters": "list[Parameter]", "indentations": "str", "is_instance_method": "bool"}
    modifies = ["self._current_todo_msgs", "self.module_imports", "self.classes_outside_package"]
    safety = False
    unfold = ["PARAMS", "PARAMS_MARKERS"]
    # A proof by loop invariant (texts / markers of the shown prefix, `merge: False`) was attempted in the thorough
    # tier: 843 obligations from 130 body paths, 747 discharged in 75 min, 96 invariant-preservation obligations
    # undecided (counter-models over untyped list elements). The two clauses therefore stay bounded stand-ins.
    def requires(self, parameters, indentations, is_instance_method):
        # model invariant established by the analyser: a parameter with a default has a type
        return all((p.type is not None) or (not p.is_optional) for p in parameters)

    @clause(props=["C06", "C09", "C02"], mode="bounded")
    def ensures_list(self, parameters, indentations, is_instance_method, result):
        return result == PARAMS(self.naming_convention, parameters, indentations, is_instance_method)

    @clause(props=["C20"], mode="bounded")
    def ensures_markers(self, parameters, indentations, is_instance_method):
        return self._current_todo_msgs - FREE_MARKERS == \
            (old(self._current_todo_msgs) | PARAMS_MARKERS(parameters, is_instance_method)) - FREE_MARKERS

    @clause(props=["C20"], mode="use")
    def ensures_markers_use(self, parameters, indentations, is_instance_method):
        return self._current_todo_msgs == old(self._current_todo_msgs) | PARAMS_MARKERS(parameters, is_instance_method) \
            | PARAMS_ICA(self, parameters, is_instance_method)

    @clause(props=["C11"], mode="use")
    def ensures_imports_use(self, parameters, indentations, is_instance_method):
        return self.module_imports == old(self.module_imports) | PARAMS_IMPORTS(self, parameters, is_instance_method)


def _mk_params(n_variants=None):
    """Parameter objects over every passing kind x {typed, untyped} x a few defaults."""
    from safeds_stubgen.api_analyzer import _types as T
    from safeds_stubgen.api_analyzer._api import Parameter
    from safeds_stubgen.docstring_parsing import ParameterDocstring
    PA = ParameterAssignment
    tys = [None, T.NamedType("int", "builtins.int"), T.TupleType([T.NamedType("str", "builtins.str")]),
           T.SetType([T.NamedType("int", "builtins.int")]), T.NamedType("my_cls", "other.m.my_cls")]
    defaults = [(False, None), (True, None), (True, True), (True, 3), (True, '"x"'), (True, "()"), (True, "{}"), (True, UnknownValue())]
    names = ADV_NAMES
    out = []
    i = 0
    for kind in PA:
        for ty in tys:
            for (opt, dv) in defaults:
                if ty is None and opt:
                    continue
                nm = names[i % len(names)]
                i += 1
                out.append(Parameter(id=f"f/{nm}", name=nm, is_optional=opt, default_value=dv, assigned_by=kind,
                                     docstring=ParameterDocstring(), type=ty))
    return out


def _param_string_cases(seed, tier):
    ps = _mk_params()
    import itertools
    for conv in (False, True):
        for inst in (False, True):
            yield {"self": _mk_gen(conv), "kwargs": {"parameters": [], "indentations": "", "is_instance_method": inst}}
            for p in ps:
                yield {"self": _mk_gen(conv), "kwargs": {"parameters": [ps[0], p], "indentations": "    ", "is_instance_method": inst}}
            for a, b in itertools.islice(itertools.combinations(ps[::7], 2), 60):
                yield {"self": _mk_gen(conv), "kwargs": {"parameters": [a, b, a], "indentations": "", "is_instance_method": inst}}


create_parameter_string.native_cases = staticmethod(_param_string_cases)


# ------------------------------------------------------------------------------------------------ results (C07, C20)
def IS_NONE_RESULT(r):
    td = TD(r.type)
    return td["kind"] == "NamedType" and td["qname"] == "builtins.None"


def RESULT_ITEM(nc, r):
    ts = R(nc, TD(r.type))
    return (ESC(CONV(r.name, nc, False)) + ": " + ts) if ts else ""


def RESULTS(nc, results):
    """` -> name: T` for one result, ` -> (a: T, b: U)` for several, nothing for `-> None` or no results."""
    if any(r.type is not None and IS_NONE_RESULT(r) for r in results):
        # a None result suppresses the list
        return ""
    items = [RESULT_ITEM(nc, r) for r in results if r.type is not None and RESULT_ITEM(nc, r) != ""]
    if len(items) == 1:
        return " -> " + items[0]
    if len(items) > 1:
        return " -> (" + ", ".join(items) + ")"
    return ""


def TYPE_MARKERS_BEFORE_NONE(results):
    """Markers of the typed results in front of the first None-typed one."""
    out = set()
    for r in results:
        if r.type is not None and IS_NONE_RESULT(r):
            break
        if r.type is not None:
            out = out | TF(TD(r.type))
    return out


def TYPE_MARKERS_OF(results):
    out = set()
    for r in results:
        if r.type is not None:
            out = out | TF(TD(r.type))
    return out


def RESULT_MARKERS(nc, results):
    """Markers of the result types that are rendered at all (a None-typed result ends the list); a function whose
    results render to nothing is flagged `result without type`."""
    if any(r.type is not None and IS_NONE_RESULT(r) for r in results):
        return TYPE_MARKERS_BEFORE_NONE(results)
    if not [RESULT_ITEM(nc, r) for r in results if r.type is not None and RESULT_ITEM(nc, r) != ""]:
        return TYPE_MARKERS_OF(results) | {"result without type"}
    return TYPE_MARKERS_OF(results)


@contract(_G + "_create_result_string", props=["C07", "C20", "C02", "C09"])
class create_result_string:
    params = {"function_results": "list[Result]"}
    modifies = ["self._current_todo_msgs", "self.module_imports", "self.classes_outside_package"]
    safety = False
    # results so far = rendered items of the processed prefix; no None-typed result among the processed ones
    loop_invariants = {"for1": {
        "shapes": {"results": "list[str]"},
        "modifies": ["self._current_todo_msgs", "self.module_imports", "self.classes_outside_package"],
        "inv": "results == [RESULT_ITEM(self.naming_convention, r) for r in function_results[:_k]"
               " if r.type is not None and RESULT_ITEM(self.naming_convention, r) != '']"
               " and not any(r.type is not None and IS_NONE_RESULT(r) for r in function_results[:_k])"
               " and self._current_todo_msgs - FREE_MARKERS == "
               "(old(self._current_todo_msgs) | TYPE_MARKERS_OF(function_results[:_k])) - FREE_MARKERS"}}

    @clause(props=["C07", "C02", "C09"])
    def ensures_render(self, function_results, result):
        return result == RESULTS(self.naming_convention, function_results)

    @clause(props=["C20"])
    def ensures_markers(self, function_results):
        return self._current_todo_msgs - FREE_MARKERS == (old(self._current_todo_msgs) | RESULT_MARKERS(self.naming_convention, function_results)) - FREE_MARKERS


# ------------------------------------------------------------------------------------------------ documentation comments (C13)
def DOC_COMMENT(nc, docstring, indent, node, node_kind):
    """Full documentation comment: description, one `@param <name> <text>` per documented parameter, one
    `@result <name> <text>` per documented result, one `@example` block per example (only the >>> / ... lines)."""
    from safeds_stubgen.docstring_parsing import AttributeDocstring
    text = ""
    if docstring.description:
        text = indent + " * " + DESC(docstring.description, indent)
    params = []
    if node_kind == "class":
        params = node.constructor.parameters if node.constructor is not None else []
    elif node_kind == "function":
        params = node.parameters
    ptext = "".join(indent + " * @param " + CONV(p.name, nc, False) + " " + DESC(p.docstring.description, indent)
                    for p in params if p.docstring.description)
    if ptext and text:
        ptext = indent + " *\n" + ptext
    text += ptext
    rtext = ""
    if node_kind == "function":
        k = 0
        for rd in node.result_docstrings:
            if rd.description:
                if rd.name:
                    nm = rd.name
                else:
                    k += 1
                    nm = "result_" + str(k)
                rtext += indent + " * @result " + CONV(nm, nc, False) + " " + ("\n" + indent + " * ").join(rd.description.split("\n")) + "\n"
        if rtext and text:
            rtext = indent + " *\n" + rtext
    text += rtext
    examples = []
    if not isinstance(docstring, AttributeDocstring) and docstring.examples:
        for ex in docstring.examples:
            block = indent + " * @example\n" + indent + " * pipeline example {\n"
            for line in ex.split("\n"):
                if line.startswith(">>>"):
                    block += indent + " *     " + line.replace(">>>", "//") + "\n"
                elif line.startswith("..."):
                    block += indent + " *     " + line.replace("...", "//") + "\n"
            block += indent + " * }\n"
            examples.append(block)
    if text and examples:
        text += indent + " *\n"
    text += (indent + " *\n").join(examples)
    return (indent + "/**\n" + text + indent + " */\n") if text else ""


def _node_kind(node):
    from safeds_stubgen.api_analyzer import Class, Function
    return "class" if isinstance(node, Class) else ("function" if isinstance(node, Function) else "none")


@contract(_G + "_create_sds_docstring", props=["C13", "C02", "C09"])
class create_sds_docstring:
    deductive = False
    params = {"docstring": "ClassDocstring | FunctionDocstring | AttributeDocstring", "indentations": "str", "node": "Class | Function | None"}
    safety = False
    modifies = []

    @clause(mode="bounded")
    def ensures_comment(self, docstring, indentations, node, result):
        return result == DOC_COMMENT(self.naming_convention, docstring, indentations, node, _node_kind(node))


# ------------------------------------------------------------------------------------------------ functions (C03, C06, C07, C09, C20, C02)
def TYPE_VARS(nc, function, is_method, class_generics):
    names = []
    for tv in function.type_var_types:
        nm = ESC(CONV(tv.name, nc, False))
        if (not is_method) or nm not in class_generics:
            names.append(nm + ((" sub " + R(nc, TD(tv.upper_bound))) if tv.upper_bound is not None else ""))
    return ("<" + ", ".join(names) + ">") if names else ""


def FUNCTION_TEXT(gen, pending_before, function, indent, is_method):
    """The stub of a function: marker block, documentation comment, @Pure, @PythonName iff renamed,
    `[static ]fun name<T>(params)[ -> results]`."""
    nc = gen.naming_convention
    static = "static " if (function.is_class_method or function.is_static) else ""
    markers = set(pending_before)
    if function.is_class_method:
        markers = markers | {"class_method"}
    markers = markers | PARAMS_MARKERS(function.parameters, (not function.is_static) and is_method)
    for tv in function.type_var_types:
        nm = ESC(CONV(tv.name, nc, False))
        if ((not is_method) or nm not in gen.class_generics) and tv.upper_bound is not None:
            markers = markers | TF(TD(tv.upper_bound))
    markers = markers | RESULT_MARKERS(nc, function.results)
    ann = ANNOT(function.name, nc, False)
    return (TODO_BLOCK(markers, indent)
            + DOC_COMMENT(nc, function.docstring, indent, function, "function")
            + indent + "@Pure\n"
            + ((indent + ann + "\n") if ann else "")
            + indent + static + "fun " + ESC(CONV(function.name, nc, False))
            + TYPE_VARS(nc, function, is_method, gen.class_generics)
            + "(" + PARAMS(nc, function.parameters, indent, (not function.is_static) and is_method) + ")"
            + RESULTS(nc, function.results))


def MOVED(gen, node):
    """Is the declaration emitted in a re-exporting package with a shorter path instead of here?"""
    cur = len(gen._get_module_id().split("/"))
    return any(len(m.id.split("/")) < cur for m in node.reexported_by)


def STRIP_FREE(text):
    """Text without the lines of markers that are outside the property's list (internal class as type)."""
    return "\n".join(ln for ln in text.split("\n") if "An internal class must not be used" not in ln)


@contract(_G + "_create_function_string", props=["C03", "C06", "C07", "C09", "C20", "C02", "C13"])
class create_function_string:
    deductive = False
    params = {"function": "Function", "indentations": "str", "is_method": "bool", "in_reexport_module": "bool"}
    safety = False
    modifies = ["self._current_todo_msgs", "self.module_imports", "self.classes_outside_package", "self.reexport_modules",
                "function.name"]

    def requires(self, function, indentations, is_method, in_reexport_module):
        return all((p.type is not None) or (not p.is_optional) for p in function.parameters)

    @clause(mode="bounded")
    def ensures_text(self, function, indentations, is_method, in_reexport_module, result):
        moved = (not is_method) and (not in_reexport_module) and MOVED(self, function)
        return STRIP_FREE(result) == ("" if moved else STRIP_FREE(
            FUNCTION_TEXT(self, old(set(self._current_todo_msgs)), function, indentations, is_method)))

    @clause(props=["C20"], mode="bounded")
    def ensures_flushed(self, function, indentations, is_method, in_reexport_module, result):
        return implies(result != "", self._current_todo_msgs == set())

    @clause(props=["C03"], mode="bounded")
    def ensures_moved_once(self, function, indentations, is_method, in_reexport_module, result):
        moved = (not is_method) and (not in_reexport_module) and MOVED(self, function)
        n_after = sum(1 for lst in self.reexport_modules.values() for x in lst if x.id == function.id)
        n_before = old(sum(1 for lst in self.reexport_modules.values() for x in lst if x.id == function.id))
        return n_after == n_before + (1 if moved else 0)


def PROPERTY_TEXT(gen, pending_before, function, indent):
    nc = gen.naming_convention
    ann = ANNOT(function.name, nc, False)
    from safeds_stubgen.api_analyzer import UnionType
    tds = UnionType(types=[r.type for r in function.results if r.type is not None]).to_dict()
    ts = R(nc, tds)
    markers = set(pending_before) | TF(tds)
    return (TODO_BLOCK(markers, indent) + DOC_DESCRIPTION(function.docstring.description, indent)
            + indent + ((ann + " ") if ann else "") + "attr " + ESC(CONV(function.name, nc, False)) + ((": " + ts) if ts else ""))


@contract(_G + "_create_property_function_string", props=["C03", "C09", "C20", "C02", "C13", "C05"])
class create_property_function_string:
    deductive = False
    params = {"function": "Function", "indentations": "str"}
    safety = False
    modifies = ["self._current_todo_msgs", "self.module_imports", "self.classes_outside_package"]

    @clause(mode="bounded")
    def ensures_text(self, function, indentations, result):
        return STRIP_FREE(result) == STRIP_FREE(PROPERTY_TEXT(self, old(set(self._current_todo_msgs)), function, indentations))


# ------------------------------------------------------------------------------------------------ attributes
def ATTRIBUTE_TEXT(gen, pending_before, a, indent):
    nc = gen.naming_convention
    td = TD(a.type) if a.type else None
    ts = R(nc, td)
    markers = set(pending_before) | TF(td) | (set() if ts else {"attr without type"})
    ann = ANNOT(a.name, nc, False)
    from safeds_stubgen.docstring_parsing import AttributeDocstring
    return (TODO_BLOCK(markers, indent) + DOC_COMMENT(nc, a.docstring, indent, None, "none") + indent
            + ((ann + "\n" + indent) if ann else "") + ("static " if a.is_static else "") + "attr " + ESC(CONV(a.name, nc, False))
            + ((": " + ts) if ts else ""))


def SHOWN_ATTRIBUTES(attributes):
    return [a for a in attributes if a.is_public and not (a.type and TD(a.type)["kind"] == "TypeVarType")]


@contract(_G + "_create_class_attribute_string", props=["C03", "C04", "C09", "C20", "C02", "C05"])
class create_class_attribute_string:
    deductive = False
    params = {"attributes": "list[Attribute]", "inner_indentations": "str"}
    safety = False
    modifies = ["self._current_todo_msgs", "self.module_imports", "self.classes_outside_package"]

    @clause(mode="bounded")
    def ensures_text(self, attributes, inner_indentations, result):
        shown = SHOWN_ATTRIBUTES(attributes)
        pend = old(set(self._current_todo_msgs))
        texts = []
        for i, a in enumerate(shown):
            texts.append(ATTRIBUTE_TEXT(self, pend if i == 0 else set(), a, inner_indentations))
        want = ("\n" + "\n".join(texts) + "\n") if texts else ""
        return STRIP_FREE(result[0]) == STRIP_FREE(want) and result[1] == {a.name for a in shown}


# ------------------------------------------------------------------------------------------------ enums
def ENUM_TEXT(gen, e):
    nc = gen.naming_convention
    head = DOC_COMMENT(nc, e.docstring, "", None, "none") + "enum " + e.name
    if not e.instances:
        return head
    body = ""
    for inst in e.instances:
        ann = ANNOT(inst.name, nc, False)
        body += INDENT + ((ann + " ") if ann else "") + ESC(CONV(inst.name, nc, False)) + "\n"
    return head + " {\n" + body + "}"


@contract(_G + "_create_enum_string", props=["C03", "C09", "C02", "C13"])
class create_enum_string:
    deductive = False
    params = {"enum_data": "Enum"}
    safety = False
    modifies = []

    @clause(mode="bounded")
    def ensures_text(self, enum_data, result):
        return result == ENUM_TEXT(self, enum_data)


# ------------------------------------------------------------------------------------------------ imports block
def IMPORTS_TEXT(nc, imports):
    if not imports:
        return ""
    lines = sorted("from " + ESC(CONV(".".join(q.split(".")[:-1]), nc, False)) + " import " + ESC(CONV(q.split(".")[-1], nc, False))
                   for q in imports)
    return "\n" + "\n".join(lines) + "\n"


@contract(_G + "_create_imports_string", props=["C11", "C08", "C02", "C09"])
class create_imports_string:
    safety = False
    modifies = []

    def ensures_text(self, result):
        return result == IMPORTS_TEXT(self.naming_convention, self.module_imports)


# ------------------------------------------------------------------------------------------------ native cases from the fixtures
def _function_cases(seed, tier):
    from specs.fixtures import apis, fresh_generator, owner_module
    for api in apis(tier):
        for conv in (False, True):
            for f in api.functions.values():
                m = owner_module(api, f.id)
                is_method = f.id.rsplit("/", 1)[0] in api.classes
                for pend in (set(), {"multiple_inheritance"}):
                    g = fresh_generator(api, conv, m)
                    g._current_todo_msgs = set(pend)
                    g.class_generics = ["T"] if is_method else []
                    yield {"self": g, "kwargs": {"function": f, "indentations": "    " if is_method else "",
                                                 "is_method": is_method, "in_reexport_module": False}}
                g = fresh_generator(api, conv, m)
                yield {"self": g, "kwargs": {"function": f, "indentations": "", "is_method": is_method, "in_reexport_module": True}}


create_function_string.native_cases = staticmethod(_function_cases)


def _property_cases(seed, tier):
    from specs.fixtures import apis, fresh_generator, owner_module
    for api in apis(tier):
        for conv in (False, True):
            for f in api.functions.values():
                if f.is_property:
                    g = fresh_generator(api, conv, owner_module(api, f.id))
                    yield {"self": g, "kwargs": {"function": f, "indentations": "    "}}


create_property_function_string.native_cases = staticmethod(_property_cases)


# identifiers chosen to separate the renaming / escaping orders: keywords, keywords with leading / trailing underscores
# (become keywords only after the naming conversion), snake case that converts, names the conversion leaves alone
ADV_NAMES = ["a", "my_param", "val", "_x", "from_", "in_", "_class", "class", "yield", "as__", "__union", "Union",
             "a_b_c", "A", "_private_thing", "x1", "result_1", "_", "out", "out_put", "sub_", "literal", "true_"]


def _result_cases(seed, tier):
    from specs.fixtures import apis, fresh_generator, owner_module
    from safeds_stubgen.api_analyzer import _types as T
    from safeds_stubgen.api_analyzer._api import Result
    tys = [T.NamedType("int", "builtins.int"), T.ListType([T.NamedType("str", "builtins.str")]), None,
           T.NamedType("None", "builtins.None"), T.SetType([T.NamedType("int", "builtins.int"), T.NamedType("str", "builtins.str")])]
    for conv in (False, True):
        for i, nm in enumerate(ADV_NAMES):
            yield {"self": _mk_gen(conv), "kwargs": {"function_results": [Result(f"f/{nm}", nm, tys[0])]}}
            other = ADV_NAMES[(i * 7 + 3) % len(ADV_NAMES)]
            yield {"self": _mk_gen(conv), "kwargs": {"function_results": [Result(f"f/{nm}", nm, tys[i % len(tys)]),
                                                                          Result(f"f/{other}", other, tys[(i + 1) % len(tys)])]}}
    for api in apis(tier):
        for conv in (False, True):
            for f in api.functions.values():
                g = fresh_generator(api, conv, owner_module(api, f.id))
                yield {"self": g, "kwargs": {"function_results": f.results}}


create_result_string.native_cases = staticmethod(_result_cases)


def _docstring_cases(seed, tier):
    from specs.fixtures import PKGS, api_for, fresh_generator, owner_module
    for path, style in PKGS[(0 if tier != "quick" else 0):(len(PKGS) if tier != "quick" else 4)]:
        api = api_for(path, style)
        for conv in (False, True):
            for f in api.functions.values():
                g = fresh_generator(api, conv, owner_module(api, f.id))
                yield {"self": g, "kwargs": {"docstring": f.docstring, "indentations": "    ", "node": f}}
            for c in api.classes.values():
                g = fresh_generator(api, conv, owner_module(api, c.id))
                yield {"self": g, "kwargs": {"docstring": c.docstring, "indentations": "", "node": c}}
            for a in api.attributes_.values():
                g = fresh_generator(api, conv, owner_module(api, a.id))
                yield {"self": g, "kwargs": {"docstring": a.docstring, "indentations": "    ", "node": None}}


create_sds_docstring.native_cases = staticmethod(_docstring_cases)


def _attribute_cases(seed, tier):
    from specs.fixtures import apis, fresh_generator, owner_module
    for api in apis(tier):
        for conv in (False, True):
            for c in api.classes.values():
                for pend in (set(), {"multiple_inheritance"}):
                    g = fresh_generator(api, conv, owner_module(api, c.id))
                    g._current_todo_msgs = set(pend)
                    yield {"self": g, "kwargs": {"attributes": c.attributes, "inner_indentations": "    "}}


create_class_attribute_string.native_cases = staticmethod(_attribute_cases)


def _enum_cases(seed, tier):
    from specs.fixtures import apis, fresh_generator, owner_module
    for api in apis(tier):
        for conv in (False, True):
            for e in api.enums.values():
                yield {"self": fresh_generator(api, conv, owner_module(api, e.id)), "kwargs": {"enum_data": e}}


create_enum_string.native_cases = staticmethod(_enum_cases)


def _imports_cases(seed, tier):
    from specs.fixtures import apis, fresh_generator
    sets = [set(), {"pkg.mod.A"}, {"b.x.my_cls", "a.y.val", "a.y.Other", "in.sub.fun"}, {"top"}]
    for api in apis("quick"):
        for conv in (False, True):
            for s in sets:
                g = fresh_generator(api, conv)
                g.module_imports = set(s)
                yield {"self": g, "kwargs": {}}
        break


create_imports_string.native_cases = staticmethod(_imports_cases)
