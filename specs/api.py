"""Contracts for safeds_stubgen/api_analyzer/_api.py (C12, C08, C06, C16)."""
from pyvc.api import clause, contract, deep_fresh, implies, old
from safeds_stubgen.api_analyzer._api import UnknownValue
from specs.types import TD

_A = "safeds_stubgen.api_analyzer._api:"


@contract(_A + "Parameter.to_dict", props=["C06", "C12"])
class parameter_to_dict:
    raises = ()

    def ensures_fields(self, result):
        return result["id"] == self.id and result["name"] == self.name and result["is_optional"] == self.is_optional \
            and result["assigned_by"] == self.assigned_by.name \
            and result["default_value"] == ("UnknownValue" if isinstance(self.default_value, UnknownValue) else self.default_value) \
            and result["type"] == (TD(self.type) if self.type is not None else None)


@contract(_A + "Result.to_dict", props=["C07", "C12"])
class result_to_dict:
    raises = ()

    def ensures_fields(self, result):
        return result["id"] == self.id and result["name"] == self.name \
            and result["type"] == (TD(self.type) if self.type is not None else None)


@contract(_A + "Attribute.to_dict", props=["C12"])
class attribute_to_dict:
    raises = ()

    def ensures_fields(self, result):
        return result["id"] == self.id and result["name"] == self.name and result["is_public"] == self.is_public \
            and result["is_static"] == self.is_static and result["type"] == (TD(self.type) if self.type is not None else None)


@contract(_A + "EnumInstance.to_dict", props=["C12"])
class enum_instance_to_dict:
    raises = ()

    def ensures_fields(self, result):
        return result["id"] == self.id and result["name"] == self.name


@contract(_A + "Function.to_dict", props=["C12"])
class function_to_dict:
    raises = ()

    def ensures_fields(self, result):
        return result["id"] == self.id and result["name"] == self.name and result["is_public"] == self.is_public \
            and result["is_static"] == self.is_static and result["is_class_method"] == self.is_class_method \
            and result["is_property"] == self.is_property \
            and result["results"] == [r.id for r in self.results] \
            and result["parameters"] == [p.id for p in self.parameters] \
            and result["reexported_by"] == [m.id for m in self.reexported_by]


@contract(_A + "Enum.to_dict", props=["C12"])
class enum_to_dict:
    raises = ()

    def ensures_fields(self, result):
        return result["id"] == self.id and result["name"] == self.name and result["instances"] == [i.id for i in self.instances]


@contract(_A + "Module.to_dict", props=["C12"])
class module_to_dict:
    raises = ()

    def ensures_fields(self, result):
        return result["id"] == self.id and result["name"] == self.name and result["docstring"] == self.docstring \
            and result["classes"] == [c.id for c in self.classes] \
            and result["functions"] == [f.id for f in self.global_functions] \
            and result["enums"] == [e.id for e in self.enums]


@contract(_A + "API.add_module", props=["C12", "C03"])
class add_module:
    params = {"module": "Module"}
    raises = ()
    modifies = ["self.modules"]

    def ensures_registered(self, module):
        return self.modules[module.id] is module


@contract(_A + "API.add_class", props=["C12", "C03"])
class add_class:
    params = {"class_": "Class"}
    raises = ()
    modifies = ["self.classes"]

    def ensures_registered(self, class_):
        return self.classes[class_.id] is class_


@contract(_A + "API.add_function", props=["C12", "C03"])
class add_function:
    params = {"function": "Function"}
    raises = ()
    modifies = ["self.functions"]

    def ensures_registered(self, function):
        return self.functions[function.id] is function


@contract(_A + "API.add_enum", props=["C12", "C03"])
class add_enum:
    params = {"enum": "Enum"}
    raises = ()
    modifies = ["self.enums"]

    def ensures_registered(self, enum):
        return self.enums[enum.id] is enum


@contract(_A + "API.add_attribute", props=["C12", "C03"])
class add_attribute:
    params = {"attribute": "Attribute"}
    raises = ()
    modifies = ["self.attributes_"]

    def ensures_registered(self, attribute):
        return self.attributes_[attribute.id] is attribute


@contract(_A + "API.add_parameter", props=["C12", "C03"])
class add_parameter:
    params = {"parameter": "Parameter"}
    raises = ()
    modifies = ["self.parameters_"]

    def ensures_registered(self, parameter):
        return self.parameters_[parameter.id] is parameter


@contract(_A + "API.add_enum_instance", props=["C12", "C03"])
class add_enum_instance:
    params = {"enum_instance": "EnumInstance"}
    raises = ()
    modifies = ["self.enum_instances"]

    def ensures_registered(self, enum_instance):
        return self.enum_instances[enum_instance.id] is enum_instance


def SORTED_UNIQUE_BY_ID(lst):
    return all(lst[i]["id"] < lst[i + 1]["id"] for i in range(len(lst) - 1))


@contract(_A + "API.to_dict", props=["C12", "C08"])
class api_to_dict:
    deductive = False
    safety = False

    @clause(mode="bounded")
    def ensures_inventory(self, result):
        keys = ["modules", "classes", "functions", "results", "enums", "enum_instances", "attributes", "parameters"]
        srcs = [self.modules, self.classes, self.functions, self.results, self.enums, self.enum_instances,
                self.attributes_, self.parameters_]
        return result["schemaVersion"] == 1 and all(
            SORTED_UNIQUE_BY_ID(result[k]) and sorted(x["id"] for x in result[k]) == sorted(s.keys()) and
            all(v.id == kk for kk, v in s.items())
            for k, s in zip(keys, srcs))

    @clause(props=["C12"], mode="bounded")
    def ensures_references_resolve(self, result):
        ids = {k: {x["id"] for x in result[k]} for k in ("modules", "classes", "functions", "results", "enums",
                                                          "enum_instances", "attributes", "parameters")}
        ok = True
        owners = {}
        for m in result["modules"]:
            for c in m["classes"]:
                ok = ok and c in ids["classes"]
                owners[c] = owners.get(c, 0) + 1
            for f in m["functions"]:
                ok = ok and f in ids["functions"]
                owners[f] = owners.get(f, 0) + 1
            for e in m["enums"]:
                ok = ok and e in ids["enums"]
                owners[e] = owners.get(e, 0) + 1
        for c in result["classes"]:
            for a in c["attributes"]:
                ok = ok and a in ids["attributes"]
                owners[a] = owners.get(a, 0) + 1
            for f in c["methods"]:
                ok = ok and f in ids["functions"]
                owners[f] = owners.get(f, 0) + 1
            for k in c["classes"]:
                ok = ok and k in ids["classes"]
                owners[k] = owners.get(k, 0) + 1
            if c["constructor"] is not None:
                owners[c["constructor"]["id"]] = owners.get(c["constructor"]["id"], 0) + 1
        for f in result["functions"]:
            for p in f["parameters"]:
                ok = ok and p in ids["parameters"]
                owners[p] = owners.get(p, 0) + 1
            for r in f["results"]:
                ok = ok and r in ids["results"]
                owners[r] = owners.get(r, 0) + 1
        for e in result["enums"]:
            for i in e["instances"]:
                ok = ok and i in ids["enum_instances"]
                owners[i] = owners.get(i, 0) + 1
        for k in ("classes", "functions", "results", "enums", "enum_instances", "attributes", "parameters"):
            for x in result[k]:
                if owners.get(x["id"], 0) != 1 and not KNOWN_ORPHAN(x["id"]):
                    ok = False
        return ok and all("/" in x["id"] for k in ids for x in result[k] if k != "modules")


def KNOWN_ORPHAN(decl_id):
    return False


def _api_cases(seed, tier):
    from specs.fixtures import apis
    for api in apis(tier):
        yield {"self": api, "kwargs": {}}


api_to_dict.native_cases = staticmethod(_api_cases)
