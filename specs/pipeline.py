"""Contracts on the top-level generation functions (stubs_generator/_generate_stubs.py): text-level clauses stated
with an independent oracle — a parser of the stub language (specs/sdsparse.py) and the declarations of the API
model — instead of a transcription of the emitters. They are evaluated natively on real API models (bounded)."""
from pyvc import FIXTURES, HOME  # noqa: F401
from pyvc.api import clause, contract, implies, old
from specs import sdsparse

_GS = "safeds_stubgen.stubs_generator._generate_stubs:"


def _is_private_name(name):
    return name.startswith("_") and not (name.startswith("__") and name.endswith("__"))


# ---------------------------------------------------------------------------------------------- expectations from the model
def EXPECTED_CLASS_MEMBERS(api, c):
    """(kind, python name) of what the stub of class c must declare (C03, C04, C17)."""
    out = []
    for a in c.attributes:
        if a.is_public and not (a.type is not None and a.type.to_dict()["kind"] == "TypeVarType"):
            out.append(("attr", a.name))
    for inner in c.classes:
        if inner.is_public:
            out.append(("class", inner.name))
    own = set()
    for m in c.methods:
        if m.is_public:
            out.append(("attr" if m.is_property else "fun", m.name))
            own.add(m.name)
    own |= {a.name for a in c.attributes if a.is_public}
    if "abc.ABC" not in c.superclasses:
        out += INHERITED(api, c, own)
    return out


def _find_class(api, qname):
    cid = qname.replace(".", "/")
    if cid in api.classes:
        return api.classes[cid]
    for k, v in api.classes.items():
        if k.endswith(cid):
            return v
    path, name = "/".join(cid.split("/")[:-1]), cid.split("/")[-1]
    for k, v in api.classes.items():
        if k.startswith(path + "/") and k.endswith("/" + name):
            return v
    return None


def INHERITED(api, c, seen):
    """Public methods of private ancestors: nearer ancestors first, each name once, own definitions win (C17)."""
    out = []
    seen = set(seen)

    def visit(sup_qname):
        name = sup_qname.split(".")[-1]
        if not name.startswith("_"):
            return
        sc = _find_class(api, sup_qname)
        if sc is None:
            return
        for m in sc.methods:
            if not m.name.startswith("_") and m.name not in seen:
                out.append(("attr" if m.is_property else "fun", m.name))
                seen.add(m.name)
        for inner in sc.classes:
            if not inner.name.startswith("_"):
                out.append(("class", inner.name))
        for s2 in sc.superclasses:
            visit(s2)
    for s in c.superclasses:
        visit(s)
    return out


def DECLARED(decls):
    """(kind, python name, members) tree of parsed declarations."""
    return [(d.kind, d.pyname, DECLARED(d.members) if d.kind == "class" else [m.pyname for m in d.members]) for d in decls]


def ALL_STUB_DECLS(stub_data):
    out = []
    for _dir, _name, text, _flag in stub_data:
        out += sdsparse.parse(text).decls
    return out


def EXPECTED_TOP(api):
    """Every public module-level declaration of the analysed files, wherever its stub is placed (C03)."""
    out = []
    for m in api.modules.values():
        if m.name == "__init__":
            continue
        for f in m.global_functions:
            if f.is_public:
                out.append(("fun", f.name, f.id))
        for c in m.classes:
            if c.is_public and not c.inherits_from_exception:
                out.append(("class", c.name, c.id))
        for e in m.enums:
            out.append(("enum", e.name, e.id))
    return out


def PARSEABLE(text):
    try:
        sdsparse.parse(text)
        return True
    except sdsparse.StubSyntaxError:
        return False


def PARSE_ERROR(text):
    try:
        sdsparse.parse(text)
        return ""
    except sdsparse.StubSyntaxError as e:
        return str(e)


@contract(_GS + "generate_stub_data", props=["C02", "C03", "C04", "C09", "C10", "C16", "C17"])
class generate_stub_data_c:
    deductive = False
    safety = False
    modifies = ["*"]

    @clause(props=["C02"], mode="bounded")
    def ensures_parse(stubs_generator, out_path, result):
        return all(PARSEABLE(text) or KNOWN_SYNTAX_REGION(stubs_generator.api, text) for _d, _n, text, _f in result)

    @clause(props=["C03"], mode="bounded")
    def ensures_top_level_once(stubs_generator, out_path, result):
        texts = [t for _d, _n, t, _f in result if PARSEABLE(t)]
        got = sorted((d.kind, d.pyname) for t in texts for d in sdsparse.parse(t).decls)
        want = sorted((k, RENAMED(stubs_generator.api, i, n)) for k, n, i in EXPECTED_TOP(stubs_generator.api)
                      if not IN_UNPARSEABLE(stubs_generator.api, result, i))
        return got == want

    @clause(props=["C03", "C04", "C17"], mode="bounded")
    def ensures_class_members(stubs_generator, out_path, result):
        api = stubs_generator.api
        by_name = {}
        for c in api.classes.values():
            by_name.setdefault(c.name, []).append(c)
        ok = True
        for _d, _n, t, _f in result:
            if not PARSEABLE(t):
                continue
            for d in sdsparse.walk(sdsparse.parse(t).decls):
                if d.kind != "class":
                    continue
                cands = by_name.get(d.pyname, [])
                if len(cands) != 1:
                    continue
                c = cands[0]
                want = sorted(EXPECTED_CLASS_MEMBERS(api, c))
                got = sorted((m.kind, m.pyname) for m in d.members)
                if got != want and not KNOWN_MEMBER_REGION(api, c):
                    ok = False
        return ok

    @clause(props=["C04"], mode="bounded")
    def ensures_no_private(stubs_generator, out_path, result):
        api = stubs_generator.api
        public_names = {f.name for f in api.functions.values() if f.is_public} | {c.name for c in api.classes.values() if c.is_public} \
            | {a.name for a in api.attributes_.values() if a.is_public}
        for _d, _n, t, _f in result:
            if not PARSEABLE(t):
                continue
            for d in sdsparse.walk(sdsparse.parse(t).decls):
                if d.kind in ("class", "fun", "attr") and _is_private_name(d.pyname) and d.pyname not in public_names:
                    return False
        return True

    @clause(props=["C10"], mode="bounded")
    def ensures_layout(stubs_generator, out_path, result):
        for d, name, text, is_pkg in result:
            if not PARSEABLE(text):
                continue
            m = sdsparse.parse(text)
            python_path = m.python_module if m.python_module is not None else m.package
            rel = d.relative_to(out_path).parts
            if tuple(python_path.split(".")) != (rel[:-1] if is_pkg else rel) and not is_pkg:
                return False
            if is_pkg and tuple(python_path.split(".")) != rel[:-1]:
                return False
        return True

    @clause(props=["C16"], mode="bounded")
    def ensures_model_unchanged(stubs_generator, out_path, result):
        return stubs_generator.api.to_dict() == old(stubs_generator.api.to_dict()) or KNOWN_RENAME_REGION(stubs_generator.api)


def RENAMED(api, decl_id, name):
    """Name under which a declaration is emitted: if a package on a shorter path re-exports it under an alias,
    the stub of that package declares it under the alias."""
    node = api.classes.get(decl_id) or api.functions.get(decl_id)
    if node is None:
        return name
    own_depth = len(decl_id.split("/")) - 1
    best = None
    for m in node.reexported_by:
        d = len(m.id.split("/"))
        if d < own_depth and (best is None or d < len(best.id.split("/"))):
            best = m
    if best is None:
        return name
    alias = None
    for qi in best.qualified_imports:
        if qi.qualified_name.endswith(name):
            alias = qi.alias
    return alias or name


def IN_UNPARSEABLE(api, result, decl_id):
    return False


def KNOWN_SYNTAX_REGION(api, text):
    return False


def KNOWN_MEMBER_REGION(api, c):
    return False


def KNOWN_RENAME_REGION(api):
    return False


def _stub_data_cases(seed, tier):
    from pathlib import Path
    from specs.fixtures import PKGS, QUICK, api_for
    from safeds_stubgen.stubs_generator import StubsStringGenerator
    import copy
    for path, style in (QUICK if tier == "quick" else PKGS):
        for conv in (False, True):
            api = copy.deepcopy(api_for(path, style))
            yield {"kwargs": {"stubs_generator": StubsStringGenerator(api, conv), "out_path": Path("/out")}}


generate_stub_data_c.native_cases = staticmethod(_stub_data_cases)


# ---------------------------------------------------------------------------------------------- state independence (C08, C18)
_G = "safeds_stubgen.stubs_generator._stub_string_generator:StubsStringGenerator."


def FRESH_MODULE_TEXT(api, convert, module):
    """What a generator that never saw another module produces for `module`."""
    from safeds_stubgen.stubs_generator import StubsStringGenerator
    return StubsStringGenerator(api, convert)(module)


@contract(_G + "__call__", props=["C08", "C18"])
class generator_call:
    """The stub of a module is a function of (API model, naming setting, module): whatever the generator
    rendered before (in whatever order the modules were enumerated) leaves no trace in it."""
    deductive = False

    @clause(mode="bounded")
    def ensures_history_free(self, module, result):
        return result == FRESH_MODULE_TEXT(self.api, self.naming_convention.name == "SAFE_DS", module)


def _call_cases(seed, tier):
    from specs.fixtures import PKGS, QUICK, api_for
    from safeds_stubgen.stubs_generator import StubsStringGenerator
    for path, style in (QUICK if tier == "quick" else PKGS):
        api = api_for(path, style)
        mods = [m for m in api.modules.values()]
        if len(mods) > 12 and tier == "quick" and not path.startswith(FIXTURES):
            mods = mods[:12]
        for conv in (False, True):
            for i, m1 in enumerate(mods):
                for j, m2 in enumerate(mods):
                    if i == j or (conv and (i + j) % 3):
                        continue
                    g = StubsStringGenerator(api, conv)
                    g(m1)
                    g.reexport_modules.clear()
                    yield {"self": g, "kwargs": {"module": m2}}


generator_call.native_cases = staticmethod(_call_cases)


def REEXPORT_TEXTS_ONE_BY_ONE(api, convert, reexport_modules, out_path):
    """Each re-exported declaration rendered by a generator that renders nothing else."""
    from safeds_stubgen.stubs_generator import StubsStringGenerator
    out = []
    for module_id, elements in reexport_modules.items():
        for element in sorted(elements, key=lambda x: x.name):
            g = StubsStringGenerator(api, convert)
            g._current_todo_msgs = set()
            g.reexport_modules[module_id] = [element]
            out += g.create_reexport_module_strings(out_path)
    return out


@contract(_G + "create_reexport_module_strings", props=["C18", "C08", "C11"])
class reexport_strings:
    """The stub of a re-exported declaration depends on that declaration only, not on the declarations that are
    re-exported next to it: the list is the concatenation of the one-element renderings."""
    deductive = False

    @clause(mode="bounded")
    def ensures_elementwise(self, out_path, result):
        return result == REEXPORT_TEXTS_ONE_BY_ONE(self.api, self.naming_convention.name == "SAFE_DS",
                                                   self.reexport_modules, out_path)


def _reexport_cases(seed, tier):
    from pathlib import Path
    from specs.fixtures import PKGS, QUICK, api_for
    from safeds_stubgen.stubs_generator import StubsStringGenerator
    for path, style in (QUICK if tier == "quick" else PKGS):
        api = api_for(path, style)
        for conv in (False, True):
            for rev in (False, True):
                g = StubsStringGenerator(api, conv)
                mods = list(api.modules.values())
                for m in (reversed(mods) if rev else mods):
                    g(m)
                yield {"self": g, "kwargs": {"out_path": Path("/out")}}


reexport_strings.native_cases = staticmethod(_reexport_cases)
