"""Contracts for safeds_stubgen/api_analyzer/_mypy_helpers.py (C06, C07, C01)."""
from mypy import nodes as mp_nodes
from mypy.nodes import ArgKind

from pyvc.api import clause, contract, implies, opaque
from safeds_stubgen.api_analyzer._api import ParameterAssignment as PA
from safeds_stubgen.api_analyzer._api import VarianceKind
import safeds_stubgen.api_analyzer._types as sds_types  # noqa: F401

_M = "safeds_stubgen.api_analyzer._mypy_helpers:"


@contract(_M + "get_argument_kind", props=["C06", "C01"])
class arg_kind:
    """The passing kind recorded for a parameter (table from the property statement). Total on mypy's ArgKind."""
    params = {"arg": "mp_nodes.Argument"}
    raises = ()

    def ensures_table(arg, result):
        recv = arg.variable.is_self or arg.variable.is_cls
        return result == (PA.IMPLICIT if recv else
                          ((PA.POSITION_ONLY if arg.pos_only else PA.POSITION_OR_NAME)
                           if (arg.kind == ArgKind.ARG_POS or arg.kind == ArgKind.ARG_OPT) else
                           (PA.POSITIONAL_VARARG if arg.kind == ArgKind.ARG_STAR else
                            (PA.NAMED_VARARG if arg.kind == ArgKind.ARG_STAR2 else PA.NAME_ONLY))))


@contract(_M + "mypy_variance_parser", props=["C01", "C05"])
class variance_parser:
    params = {"mypy_variance_type": "int"}

    def raises_ValueError(mypy_variance_type):
        return not (mypy_variance_type == 0 or mypy_variance_type == 1 or mypy_variance_type == 2)

    def ensures_table(mypy_variance_type, result):
        return result == (VarianceKind.INVARIANT if mypy_variance_type == 0 else
                          (VarianceKind.COVARIANT if mypy_variance_type == 1 else VarianceKind.CONTRAVARIANT))


@contract(_M + "has_correct_type_of_any", props=["C05", "C01"])
class correct_any:
    params = {"type_of_any": "int"}
    raises = ()

    def ensures_set(type_of_any, result):
        import mypy.types as mp_types
        return result == (type_of_any == mp_types.TypeOfAny.explicit or type_of_any == mp_types.TypeOfAny.from_another_any
                          or type_of_any == mp_types.TypeOfAny.from_unimported_type)


@contract(_M + "mypy_expression_to_python_value", props=["C06", "C01"])
class expr_to_value:
    """Literal expression -> Python value; raises only for expressions that are not literals."""
    params = {"expr": "mp_nodes.Expression"}

    def raises_TypeError(expr):
        is_lit_name = isinstance(expr, mp_nodes.NameExpr) and (expr.name == "None" or expr.name == "True" or expr.name == "False")
        is_lit = isinstance(expr, mp_nodes.IntExpr) or isinstance(expr, mp_nodes.FloatExpr) or isinstance(expr, mp_nodes.StrExpr)
        return not (is_lit_name or is_lit)

    def ensures_value(expr, result):
        if isinstance(expr, mp_nodes.NameExpr):
            return implies(expr.name == "None", result is None) and implies(expr.name == "True", result is True) \
                and implies(expr.name == "False", result is False)
        return result == expr.value


@contract(_M + "mypy_expression_to_sds_type", props=["C07", "C05", "C01"])
class expr_to_sds_type:
    """Literal expression -> the type recorded for it (C07: result types inferred from returned literals): int / float /
    str literals and True / False map to the builtin of that name, any other name to a reference with mypy's full name,
    a tuple display to a tuple type (the entry count is not proved: fold length over recursive calls stayed undecided). The
    function itself raises exactly for other expression kinds (recursive calls are used through this contract; an
    exception raised inside one is not propagated by the encoding - listed assumption)."""
    params = {"expr": "mp_nodes.Expression"}
    returns = "sds_types.AbstractType"

    def raises_TypeError(expr):
        return not (isinstance(expr, mp_nodes.NameExpr) or isinstance(expr, mp_nodes.IntExpr)
                    or isinstance(expr, mp_nodes.FloatExpr) or isinstance(expr, mp_nodes.StrExpr)
                    or isinstance(expr, mp_nodes.TupleExpr) or isinstance(expr, mp_nodes.UnaryExpr))

    def ensures_table(expr, result):
        if isinstance(expr, mp_nodes.NameExpr):
            return result == (sds_types.NamedType(name="bool", qname="builtins.bool")
                              if (expr.name == "False" or expr.name == "True")
                              else sds_types.NamedType(name=expr.name, qname=expr.fullname))
        if isinstance(expr, mp_nodes.IntExpr):
            return result == sds_types.NamedType(name="int", qname="builtins.int")
        if isinstance(expr, mp_nodes.FloatExpr):
            return result == sds_types.NamedType(name="float", qname="builtins.float")
        if isinstance(expr, mp_nodes.StrExpr):
            return result == sds_types.NamedType(name="str", qname="builtins.str")
        if isinstance(expr, mp_nodes.TupleExpr):
            return isinstance(result, sds_types.TupleType)
        return True


# ---------------------------------------------------------------------------------------------- return statements (C07)
def RETURNS_ORACLE(stmts):
    """Every `return` syntactically inside the statements, nested function / class bodies excluded, in source
    order. Generic walk over the statement-bearing fields of mypy's statement classes, read from the installed
    mypy (`__match_args__` of each node class) - independent of the function under contract."""
    from mypy import nodes
    out = []

    def visit(x):
        if isinstance(x, nodes.ReturnStmt):
            out.append(x)
            return
        if isinstance(x, (nodes.FuncDef, nodes.ClassDef, nodes.Decorator, nodes.OverloadedFuncDef, nodes.Expression)):
            return
        if isinstance(x, (list, tuple)):
            for y in x:
                visit(y)
            return
        if isinstance(x, (nodes.Statement, nodes.Block)):
            flds = getattr(type(x), "__match_args__", None)
            if not isinstance(flds, tuple):
                flds = [a for a in dir(x) if not a.startswith("_")]
            for fld in flds:
                v = getattr(x, fld, None)
                if isinstance(v, (list, tuple, nodes.Statement, nodes.Block)):
                    visit(v)
    visit(list(stmts))
    return sorted(out, key=lambda r: (r.line, r.column))


@contract(_M + "find_return_stmts_recursive", props=["C07", "C01"])
class find_returns:
    deductive = False
    safety = False

    @clause(mode="bounded")
    def ensures_complete(stmts, result):
        want = RETURNS_ORACLE(stmts)
        return [id(r) for r in sorted(result, key=lambda r: (r.line, r.column))] == [id(r) for r in want] \
            and [id(r) for r in result] == [id(r) for r in sorted(result, key=lambda r: (r.line, r.column))]


_RETURN_SNIPPETS = '''
def f_if(a):
    if a:
        return 1
    elif a == 2:
        return 2
    else:
        return 3

def f_loops(xs):
    for x in xs:
        if x:
            return x
    else:
        return "for-else"
    while xs:
        return 4
    else:
        return "while-else"

def f_try(a):
    try:
        return 1
    except ValueError:
        return 2
    except (KeyError, TypeError):
        return 3
    else:
        return "try-else"
    finally:
        return "finally"

def f_with_match(a, cm):
    with cm:
        with cm as b:
            return b
    match a:
        case 1:
            return "one"
        case [x, y]:
            return x
        case _:
            if a:
                return None
    return a if a else 2

def f_nested(a):
    def inner():
        return "inner"
    class K:
        def m(self):
            return "method"
    lam = lambda: 5
    if a:
        for i in a:
            try:
                with a:
                    return (i, 1)
            except Exception:
                while a:
                    return i
    return inner
'''


def _mypy_funcdefs(source, name="snip"):
    import os, tempfile
    import mypy.build as mypy_build
    import mypy.main as mypy_main
    from mypy import nodes
    d = tempfile.mkdtemp()
    p = os.path.join(d, name + ".py")
    with open(p, "w") as f:
        f.write(source)
    files, opt = mypy_main.process_options([p])
    opt.preserve_asts = True
    opt.incremental = False
    res = mypy_build.build(files, options=opt)
    tree = [st.tree for k, st in res.graph.items() if st.tree is not None and st.tree.path == p][0]
    return [dfn for dfn in tree.defs if isinstance(dfn, nodes.FuncDef)]


def _returns_cases(seed, tier):
    for fd in _mypy_funcdefs(_RETURN_SNIPPETS):
        yield {"kwargs": {"stmts": fd.body.body}}


find_returns.native_cases = staticmethod(_returns_cases)
