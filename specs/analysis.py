"""Contracts on the analyser entry point get_api (api_analyzer/_get_api.py): the API model against an independent
reading of the package's sources with Python's `ast` (specs/pyoracle.py). Bounded: evaluated natively on the
fixture packages."""
import inspect

from pyvc import FIXTURES, HOME  # noqa: F401
from pyvc.api import clause, contract, implies, old
from specs import pyoracle

_GA = "safeds_stubgen.api_analyzer._get_api:"


def _is_private_name(name):
    return name.startswith("_") and not (name.startswith("__") and name.endswith("__"))


def ORACLE(root, is_test_run):
    return pyoracle.package_modules(str(root), include_tests=bool(is_test_run))


def API_KINDS(api):
    return {"IMPLICIT", "POSITION_ONLY", "POSITION_OR_NAME", "POSITIONAL_VARARG", "NAME_ONLY", "NAMED_VARARG"}


def EXPECTED_DEFAULT(p):
    """(is_optional, default_value) the API must record for a source parameter (C06)."""
    if p.has_default and p.default[0] == "unparsable":
        return (True, "UNKNOWN")
    if not p.has_default or p.default[0] != "lit":
        return (False, None)
    v = p.default[1]
    if isinstance(v, str):
        return (True, '"' + v + '"')
    return (True, v)


def PARAMS_OK(api, f, known):
    af = api.functions.get(f.id)
    if af is None:
        return known(f.id)
    from safeds_stubgen.api_analyzer._api import UnknownValue
    got = [(p.name, p.assigned_by.name, p.is_optional, "UNKNOWN" if isinstance(p.default_value, UnknownValue) else p.default_value)
           for p in af.parameters]
    want = [(p.name, p.kind) + EXPECTED_DEFAULT(p) for p in f.params]
    if len(got) != len(want):
        return False
    for g, w in zip(got, want):
        if g[0] != w[0] or g[1] != w[1]:
            return False
        if (g[2], g[3]) != (w[2], w[3]) or type(g[3]) is not type(w[3]):
            # a docstring type may replace the default text (C14) - only compared when no docstring type is involved
            ap = [p for p in af.parameters if p.name == g[0]][0]
            if ap.docstring.type is None:
                return False
    return True


def DECL_IDS(mods):
    ids = {"modules": set(), "classes": set(), "functions": set(), "enums": set(), "enum_instances": set(),
           "attributes": set(), "parameters": set()}
    for m in mods:
        if not (m.path.endswith("__init__.py") and not (m.functions or m.classes)):
            ids["modules"].add(m.id)
        for f in m.functions:
            ids["functions"].add(f.id)
    for c in pyoracle.all_classes(mods):
        if c.is_enum:
            ids["enums"].add(c.id)
            for n in c.enum_members:
                ids["enum_instances"].add(c.id + "/" + n)
            continue
        ids["classes"].add(c.id)
        for n, _ in c.class_attrs:
            ids["attributes"].add(c.id + "/" + n)
        for n, _ in c.init_attrs:
            ids["attributes"].add(c.id + "/" + n)
    for f in pyoracle.all_functions(mods):
        owner = f.id.rsplit("/", 1)[0]
        ids["functions"].add(f.id)
        for p in f.params:
            ids["parameters"].add(f.id + "/" + p.name)
    return ids


def UNDER_ENUM_OR_FUNCTION(mods, decl_id):
    """Declarations nested in enums or functions are outside the model by design of the statement's list."""
    enums = {c.id for c in pyoracle.all_classes(mods) if c.is_enum}
    return any(decl_id.startswith(e + "/") for e in enums)


# ---------------------------------------------------------------------------------------------- C07: results against the source
def _own_returns(fnode):
    """Return statements of the function itself (not of nested functions, lambdas or classes)."""
    import ast as _ast
    out = []
    stack = list(fnode.body)
    while stack:
        n = stack.pop()
        if isinstance(n, (_ast.FunctionDef, _ast.AsyncFunctionDef, _ast.ClassDef, _ast.Lambda)):
            continue
        if isinstance(n, _ast.Return):
            out.append(n)
        stack.extend(_ast.iter_child_nodes(n))
    return out


def _literal_kinds(expr):
    """position -> set of builtin type names of the literal values `expr` can evaluate to (conditional
    expressions explored on both sides); None when some alternative is not a literal / tuple of literals."""
    import ast as _ast
    if isinstance(expr, _ast.IfExp):
        a, b = _literal_kinds(expr.body), _literal_kinds(expr.orelse)
        if a is None or b is None:
            return None
        out = {}
        for d in (a, b):
            for k, v in d.items():
                out.setdefault(k, set()).update(v)
        return out
    if isinstance(expr, _ast.Tuple):
        out = {}
        for i, e in enumerate(expr.elts):
            k = _literal_kinds(e)
            if k is None or set(k) != {0}:
                return None
            out[i] = k[0]
        return out
    lit = pyoracle.literal_default(expr)
    if lit[0] == "lit":
        return {0: {"None" if lit[1] is None else type(lit[1]).__name__}}
    return None


def _type_names(td):
    if td is None:
        return set()
    if td["kind"] == "NamedType":
        return {td["name"]}
    if td["kind"] == "UnionType":
        return set().union(*[_type_names(t) for t in td["types"]]) if td["types"] else set()
    if td["kind"] == "LiteralType":
        return {"None" if v is None else type(v).__name__ for v in td["literals"]}
    return set()


def RESULTS_OK(api, f):
    """C07 on one function of the source: `-> None` has no results; an annotated tuple one result per element;
    any other annotation exactly one; default names result_1.. unless the docstring names them; un-annotated:
    every literal a return statement can produce at a position is covered by the type of that result, and no
    results at all when nothing is returned."""
    import ast as _ast
    af = api.functions.get(f.id)
    if af is None or f.node is None:
        return True
    names_from_docs = [d.name for d in af.result_docstrings if d.name]
    if f.returns is not None:
        ann = f.returns
        if isinstance(ann, _ast.Constant) and isinstance(ann.value, str):
            try:
                ann = _ast.parse(ann.value, mode="eval").body
            except SyntaxError:
                return True
        if isinstance(ann, _ast.Constant) and ann.value is None:
            # the model keeps `-> None` as one None-typed result, which the emitter contract (RESULTS) renders as
            # no result list; nothing else may be recorded
            return af.results == [] or (len(af.results) == 1 and af.results[0].type is not None
                                        and af.results[0].type.to_dict() == {"kind": "NamedType", "name": "None", "qname": "builtins.None"})
        if isinstance(ann, _ast.Call):
            return True             # not an annotation of the type grammar
        want = 1
        if isinstance(ann, _ast.Tuple):
            want = len(ann.elts)        # `-> (int, bool)`: mypy reads a parenthesised tuple like tuple[int, bool]
        if isinstance(ann, _ast.Subscript) and _ast.unparse(ann.value) in ("tuple", "Tuple", "typing.Tuple"):
            elts = ann.slice.elts if isinstance(ann.slice, _ast.Tuple) else [ann.slice]
            if any(isinstance(e, _ast.Constant) and e.value is Ellipsis for e in elts):
                return True         # homogeneous tuples: outside the statement's list
            want = len(elts)
        if len(af.results) < want or (len(af.results) > want and len(af.results) != len(af.result_docstrings)):
            return False
        if not names_from_docs and [r.name for r in af.results[:want]] != [f"result_{i + 1}" for i in range(want)]:
            return False
        return True
    rets = [r for r in _own_returns(f.node) if r.value is not None]
    if any(isinstance(n, (_ast.Yield, _ast.YieldFrom)) for n in _ast.walk(f.node)):
        return True
    if not rets:
        return af.results == [] or bool(af.result_docstrings)
    if af.result_docstrings and any(d.type is not None for d in af.result_docstrings):
        return True                 # docstring types fill in for a missing hint (C14)
    for r in rets:
        kinds = _literal_kinds(r.value)
        if kinds is None:
            continue
        for pos, ks in kinds.items():
            if pos >= len(af.results):
                return False
            have = _type_names(af.results[pos].type.to_dict() if af.results[pos].type is not None else None)
            if not ks <= have:
                return False
    return True


@contract(_GA + "get_api", props=["C03", "C04", "C06", "C07", "C12", "C13", "C15", "C01"])
class get_api_c:
    deductive = False

    @clause(props=["C12", "C03"], mode="bounded")
    def ensures_inventory(root, docstring_style, is_test_run, type_source_preference, type_source_warning, result):
        mods = ORACLE(root, is_test_run)
        want = DECL_IDS(mods)
        got = {"modules": set(result.modules), "classes": set(result.classes), "functions": set(result.functions),
               "enums": set(result.enums), "enum_instances": set(result.enum_instances),
               "attributes": set(result.attributes_), "parameters": set(result.parameters_)}
        for k in want:
            missing = {i for i in want[k] - got[k] if not KNOWN_MISSING(mods, k, i)}
            extra = got[k] - want[k]
            if k == "modules":
                extra = {i for i in extra if not any(m.id == i for m in mods)}      # empty package __init__ files
            if missing or extra:
                return False
        return True

    @clause(props=["C06"], mode="bounded")
    def ensures_parameters(root, docstring_style, is_test_run, type_source_preference, type_source_warning, result):
        mods = ORACLE(root, is_test_run)
        return all(PARAMS_OK(result, f, lambda i: KNOWN_MISSING(mods, "functions", i)) for f in pyoracle.all_functions(mods)
                   if not UNDER_ENUM_OR_FUNCTION(mods, f.id))

    @clause(props=["C12"], mode="bounded")
    def ensures_flags(root, docstring_style, is_test_run, type_source_preference, type_source_warning, result):
        mods = ORACLE(root, is_test_run)
        for f in pyoracle.all_functions(mods):
            af = result.functions.get(f.id)
            if af is None:
                continue
            if (af.is_static, af.is_class_method, af.is_property) != (f.is_static, f.is_class_method, f.is_property):
                return False
        for c in pyoracle.all_classes(mods):
            ac = result.classes.get(c.id)
            # subscripted bases (Generic[T], Sequence[T], Mapping[K, V]) carry type parameters, not superclasses
            if ac is not None and len(ac.superclasses) != len([b for b in c.bases if "[" not in b]):
                if not KNOWN_SUPERCLASS(c):
                    return False
        return True

    @clause(props=["C07"], mode="bounded")
    def ensures_results(root, docstring_style, is_test_run, type_source_preference, type_source_warning, result):
        mods = ORACLE(root, is_test_run)
        return all(RESULTS_OK(result, f) for f in pyoracle.all_functions(mods) if not UNDER_ENUM_OR_FUNCTION(mods, f.id))

    @clause(props=["C04"], mode="bounded")
    def ensures_publicity(root, docstring_style, is_test_run, type_source_preference, type_source_warning, result):
        mods = ORACLE(root, is_test_run)
        for kind, table in (("functions", result.functions), ("classes", result.classes), ("attributes", result.attributes_)):
            for i, d in table.items():
                if d.is_public != PUBLIC_ORACLE(result, i, d.name) and not KNOWN_PUBLICITY(i):
                    return False
        return True

    @clause(props=["C15"], mode="bounded")
    def ensures_test_dirs(root, docstring_style, is_test_run, type_source_preference, type_source_warning, result):
        import os
        for m in pyoracle.package_modules(str(root), include_tests=True):
            in_test = any(x in ("test", "tests", "docs") for x in os.path.abspath(m.path).split(os.sep)[:-1])
            present = m.id in result.modules
            if m.path.endswith("__init__.py") and not (m.functions or m.classes):
                continue
            if present != (is_test_run or not in_test):
                return False
        return True

    @clause(props=["C13"], mode="bounded")
    def ensures_plain_docstrings(root, docstring_style, is_test_run, type_source_preference, type_source_warning, result):
        if docstring_style.name != "PLAINTEXT":
            return True
        mods = ORACLE(root, is_test_run)
        for f in pyoracle.all_functions(mods):
            af = result.functions.get(f.id)
            if af is not None and af.docstring.description != (f.doc or ""):
                return False
        for c in pyoracle.all_classes(mods):
            ac = result.classes.get(c.id)
            if ac is not None and ac.docstring.description != (c.doc or ""):
                return False
        return True


def PUBLIC_ORACLE(api, decl_id, name):
    """C04 from the statement: private iff the name (or an enclosing class/module/package segment) has a leading
    underscore and is not a dunder name — unless a package __init__ re-exports the declaration (or its module,
    or everything of its module) under a public name."""
    parts = decl_id.split("/")
    # constructor-assigned attributes and methods live under their class; __init__ itself is public with its class
    private_path = any(_is_private_name(seg) for seg in parts[:-1])
    private_self = _is_private_name(name)
    if not private_path and not private_self:
        return True
    return REEXPORTED_PUBLICLY(api, decl_id, name)


def REEXPORTED_PUBLICLY(api, decl_id, name):
    qname = decl_id.replace("/", ".")
    # owning module
    mod = None
    for m in api.modules.values():
        if m.name != "__init__" and decl_id.startswith(m.id + "/") and (mod is None or len(m.id) > len(mod.id)):
            mod = m
    if mod is None:
        return False
    mod_q = mod.id.replace("/", ".")
    inner = decl_id[len(mod.id) + 1:].split("/")          # path below the module
    for init in api.modules.values():
        if init.name != "__init__":
            continue
        for qi in init.qualified_imports:
            exported = qi.alias if qi.alias is not None else qi.qualified_name.split(".")[-1]
            target = qi.qualified_name
            # the declaration itself (top-level of its module), re-exported under a public name
            if len(inner) == 1 and (target == qname or qname.endswith("." + target) or target.endswith(mod.name + "." + name)) \
                    and not _is_private_name(exported):
                return True
            # its module re-exported under a public name: members with public names (and public owners) are public
            if (target == mod_q or mod_q.endswith("." + target) or target == mod.name) and not _is_private_name(exported) \
                    and not any(_is_private_name(s) for s in inner):
                return True
        for wi in init.wildcard_imports:
            if (wi.module_name == mod_q or mod_q.endswith("." + wi.module_name) or wi.module_name == mod.name) \
                    and not any(_is_private_name(s) for s in inner):
                return True
    # members of a class that is itself public through a re-export
    if len(inner) > 1:
        owner_id = "/".join(decl_id.split("/")[:-1])
        owner = api.classes.get(owner_id)
        if owner is None and owner_id.endswith("/__init__"):
            owner = api.classes.get(owner_id[: -len("/__init__")])
        if owner is not None and owner.is_public and not _is_private_name(name):
            return True
    return False


def KNOWN_MISSING(mods, kind, decl_id):
    return UNDER_ENUM_OR_FUNCTION(mods, decl_id)


def KNOWN_SUPERCLASS(c):
    return False


def KNOWN_PUBLICITY(decl_id):
    return False


def _get_api_cases(seed, tier):
    from pathlib import Path
    from safeds_stubgen.api_analyzer import TypeSourcePreference, TypeSourceWarning
    from safeds_stubgen.docstring_parsing import DocstringStyle
    pkgs = [(FIXTURES + "/kwpkg", "PLAINTEXT"), (FIXTURES + "/tdpkg", "PLAINTEXT"),
            (FIXTURES + "/advpkg", "PLAINTEXT"),
            ("/repo/tests/data/various_modules_package", "PLAINTEXT")]
    if tier != "quick":
        pkgs += [(FIXTURES + "/kwpkg", "NUMPYDOC"), ("/repo/tests/data/docstring_parser_package", "GOOGLE")]
    for path, style in pkgs:
        for tr in (False, True):
            yield {"kwargs": {"root": Path(path), "docstring_style": DocstringStyle[style], "is_test_run": tr,
                              "type_source_preference": TypeSourcePreference.CODE,
                              "type_source_warning": TypeSourceWarning.IGNORE}}


get_api_c.native_cases = staticmethod(_get_api_cases)


# ---------------------------------------------------------------------------------------------- C14 / C13 on structured docstrings
def _td(t):
    return None if t is None else t.to_dict()


def TYPE_SOURCE_OK(api, hint_api, pref_is_docstring):
    """C14: hint under CODE, docstring type under DOCSTRING, the only available one otherwise (parameters and
    results)."""
    for fid, f in api.functions.items():
        hf = hint_api.functions.get(fid)
        if hf is None or len(hf.parameters) != len(f.parameters):
            return False
        for p, hp in zip(f.parameters, hf.parameters):
            hint, doc = _td(hp.type), _td(p.docstring.type)
            want = doc if (doc is not None and (hint is None or pref_is_docstring)) else hint
            if _td(p.type) != want and not (hint is None and doc is None):
                return False
        docs = [r.type for r in f.result_docstrings]
        if len(docs) <= len(hf.results):
            for i, r in enumerate(f.results[: len(hf.results)]):
                hint = _td(hf.results[i].type)
                doc = _td(docs[i]) if i < len(docs) else None
                want = doc if (doc is not None and (hint is None or pref_is_docstring)) else hint
                if _td(r.type) != want:
                    return False
    return True


def FRESH_DOCS(root, style, api):
    """Documentation of every element obtained without cache history: one parser (one griffe load), whose
    one-entry cache is emptied before every query, queried in reverse order of the analysis."""
    from types import SimpleNamespace
    from safeds_stubgen.docstring_parsing import create_docstring_parser
    from specs.fixtures import hidden_verif
    with hidden_verif():
        parser = create_docstring_parser(style, root)

    def reset():
        for attr in ("_DocstringParser__cached_node", "_DocstringParser__cached_docstring"):
            if hasattr(parser, attr):
                setattr(parser, attr, None)
    out = {}
    for aid, a in reversed(list(api.attributes_.items())):
        owner = aid.rsplit("/", 1)[0]
        reset()
        out[aid] = parser.get_attribute_documentation(owner, a.name)
    for fid, f in reversed(list(api.functions.items())):
        owner = fid.rsplit("/", 1)[0]
        for prm in reversed(f.parameters):
            reset()
            out[fid + "/" + prm.name] = parser.get_parameter_documentation(fid.replace("/", "."), prm.name,
                                                                            owner if owner in api.classes else "")
        reset()
        out[fid] = parser.get_function_documentation(SimpleNamespace(fullname=fid.replace("/", ".")))
    for cid, c in reversed(list(api.classes.items())):
        reset()
        out[cid] = parser.get_class_documentation(SimpleNamespace(fullname=cid.replace("/", ".")))
    return out


@contract(_GA + "get_api", props=["C13", "C14"])
class get_api_docs_c:
    deductive = False

    @clause(props=["C14"], mode="bounded")
    def ensures_type_source(root, docstring_style, is_test_run, type_source_preference, type_source_warning, result):
        from specs.fixtures import api_for
        hint_api = api_for(str(root), "plaintext", is_test_run)
        return TYPE_SOURCE_OK(result, hint_api, type_source_preference.name == "DOCSTRING")

    @clause(props=["C14"], mode="bounded")
    def ensures_warning_setting_irrelevant(root, docstring_style, is_test_run, type_source_preference, type_source_warning, result):
        from safeds_stubgen.api_analyzer import TypeSourceWarning, get_api
        import logging
        other = TypeSourceWarning.IGNORE if type_source_warning.name == "WARN" else TypeSourceWarning.WARN
        from specs.fixtures import hidden_verif
        logging.disable(logging.CRITICAL)
        try:
            with hidden_verif():
                again = get_api(root, docstring_style, is_test_run, type_source_preference, other)
        finally:
            logging.disable(logging.NOTSET)
        return again.to_dict() == result.to_dict()

    @clause(props=["C13"], mode="bounded")
    def ensures_docs_independent_of_query_order(root, docstring_style, is_test_run, type_source_preference, type_source_warning, result):
        fresh = FRESH_DOCS(root, docstring_style, result)
        for fid, f in result.functions.items():
            if f.docstring != fresh[fid]:
                return False
            for prm in f.parameters:
                d = fresh[fid + "/" + prm.name]
                if prm.docstring.description != d.description:
                    return False
        for cid, c in result.classes.items():
            if c.docstring != fresh[cid]:
                return False
        for aid, a in result.attributes_.items():
            if a.docstring.description != fresh[aid].description:
                return False
        return True


def _docs_cases(seed, tier):
    import os, sys
    from pathlib import Path
    from safeds_stubgen.api_analyzer import TypeSourcePreference, TypeSourceWarning
    from safeds_stubgen.docstring_parsing import DocstringStyle
    styles = ["NUMPYDOC"] if tier == "quick" else ["NUMPYDOC", "GOOGLE", "REST"]
    for style in styles:
        for pref in ("CODE", "DOCSTRING"):
            yield {"kwargs": {"root": Path("/repo/tests/data/docstring_parser_package"), "docstring_style": DocstringStyle[style],
                              "is_test_run": True, "type_source_preference": TypeSourcePreference[pref],
                              "type_source_warning": TypeSourceWarning.WARN}}
    for pkg in ("kwpkg", "advpkg"):
        yield {"kwargs": {"root": Path(FIXTURES + "/" + pkg), "docstring_style": DocstringStyle.NUMPYDOC,
                          "is_test_run": True, "type_source_preference": TypeSourcePreference.DOCSTRING,
                          "type_source_warning": TypeSourceWarning.IGNORE}}


get_api_docs_c.native_cases = staticmethod(_docs_cases)
